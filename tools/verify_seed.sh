#!/bin/bash
# usage: verify_seed.sh <seed dir containing patch.diff demo.py>  -> prints demo outcomes and test-suite summary on a scratch copy
set -u
d=$(realpath "$1"); name=$(basename "$d")
tmp=$(mktemp -d /tmp/seedchk_XXXX)
rsync -a --exclude .git --exclude docs /repo/ $tmp/repo/
( cd /tmp && PYTHONPATH=/repo /venv/bin/python "$d/demo.py" >/dev/null 2>&1; echo "$name demo-on-clean=$?" )
if ! patch -p1 -s -d $tmp/repo -i "$d/patch.diff" >/dev/null 2>&1; then echo "$name PATCH-FAILED"; rm -rf $tmp; exit 1; fi
( cd /tmp && PYTHONPATH=$tmp/repo /venv/bin/python "$d/demo.py" >/dev/null 2>&1; echo "$name demo-on-patched=$?" )
if [ "${2:-}" = "--tests" ]; then
  ( cd $tmp/repo && PYTHONPATH=$tmp/repo /venv/bin/python -m pytest -q -p no:cacheprovider --timeout=900 tests 2>&1 | tail -1 | sed "s/^/$name tests: /" )
fi
rm -rf $tmp
