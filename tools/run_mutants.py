#!/venv/bin/python
"""Sensitivity self-test: apply each tools/mutants/<ID>/*.diff (and seeded/<name>/patch.diff) to a scratch copy of
/repo, run `./check <ID> quick` against it (VERIF_REPO) and expect exit 1.
usage: run_mutants.py [--tier quick|thorough] [--jobs N] [--seeds 1,2,3] [ID|ID/name ...]"""
import glob, json, os, shutil, subprocess, sys, tempfile, time
from concurrent.futures import ThreadPoolExecutor
HERE = os.path.dirname(os.path.abspath(__file__))
VERIF = os.path.dirname(HERE)
SEEDS = [int(os.environ.get("VERIF_SEED", "1"))]

def run_one(args):
    pid, name, diff, tier = args
    tmp = tempfile.mkdtemp(prefix="mut_%s_" % pid, dir="/tmp")
    try:
        repo = os.path.join(tmp, "repo")
        subprocess.run(["rsync", "-a", "--exclude", ".git", "--exclude", "__pycache__", "--exclude", "docs", "/repo/", repo + "/"], check=True)
        r = subprocess.run(["patch", "-p1", "-s", "-d", repo, "-i", diff], capture_output=True, text=True)
        if r.returncode != 0:
            return (pid, name, "PATCH-FAILED", 0, r.stdout + r.stderr)
        t0 = time.time()
        statuses, info = [], ""
        for seed in SEEDS:
            env = dict(os.environ, VERIF_REPO=repo, VERIF_EVIDENCE_DIR=os.path.join(tmp, "ev"), VERIF_OUT_DIR=os.path.join(tmp, "out"), VERIF_SEED=str(seed))
            r = subprocess.run([os.path.join(VERIF, "check"), pid, tier], capture_output=True, text=True, env=env, cwd=VERIF)
            lines = [l for l in r.stdout.splitlines() if l.startswith("  ") or "HARNESS" in l]
            statuses.append({0: "MISSED", 1: "CAUGHT", 2: "HARNESS-ERROR"}.get(r.returncode, "rc=%d" % r.returncode))
            if not info or statuses[-1] != "CAUGHT":
                info = "\n".join(lines[:4]) + (r.stderr[-600:] if r.returncode not in (0, 1) else "")
        dt = time.time() - t0
        status = statuses[0] if len(set(statuses)) == 1 else "/".join(st[0] for st in statuses)     # e.g. C/M/C = caught, missed, caught
        return (pid, name, status, dt, info)
    finally:
        shutil.rmtree(tmp, ignore_errors=True)

def main():
    argv = sys.argv[1:]
    global SEEDS
    tier, jobs = "quick", 4
    while argv and argv[0].startswith("--"):
        if argv[0] == "--seeds": SEEDS = [int(x) for x in argv[1].split(",")]
        if argv[0] == "--tier": tier = argv[1]
        if argv[0] == "--jobs": jobs = int(argv[1])
        argv = argv[2:]
    todo = []
    for diff in sorted(glob.glob(os.path.join(HERE, "mutants", "*", "*.diff"))):
        pid = os.path.basename(os.path.dirname(diff)); name = os.path.basename(diff)[:-5]
        todo.append((pid, name, diff, tier))
    for meta in sorted(glob.glob(os.path.join(VERIF, "seeded", "*", "meta.json"))):
        m = json.load(open(meta)); d = os.path.dirname(meta)
        # "checks": the checks expected to catch the change when it is not the seed's own property's check (see meta "note")
        for pid in m.get("checks", [m["property"]]):
            todo.append((pid, "seeded/" + os.path.basename(d), os.path.join(d, "patch.diff"), tier))
    if argv:
        todo = [t for t in todo if t[0] in argv or "%s/%s" % (t[0], t[1]) in argv]
    with ThreadPoolExecutor(jobs) as ex:
        results = list(ex.map(run_one, todo))
    bad = 0
    for pid, name, status, dt, info in results:
        print("%-4s %-40s %-14s %5.0fs  %s" % (pid, name, status, dt, info.replace("\n", " | ")[:300]))
        bad += status != "CAUGHT"
    print("%d mutants, %d not caught" % (len(results), bad))
    return 1 if bad else 0
sys.exit(main())
