#!/venv/bin/python
"""Create a purposeful mutant as a unified diff without touching /repo.
usage: mkmutant.py <ID> <name> <file relative to repo> <<< "OLD\n=====\nNEW"   (exact text replacement, first occurrence;
       OLD may be prefixed by a line '@@N' to pick the N-th occurrence, 1-based)"""
import difflib, os, sys
HERE = os.path.dirname(os.path.abspath(__file__))
REPO = os.environ.get("VERIF_REPO_SRC", "/repo")

def main():
    pid, name, rel = sys.argv[1:4]
    spec = sys.stdin.read()
    old, new = spec.split("\n=====\n")
    nth = 1
    if old.startswith("@@"):
        first, old = old.split("\n", 1)
        nth = int(first[2:])
    new = new.rstrip("\n")
    old = old.rstrip("\n")
    src = open(os.path.join(REPO, rel)).read()
    idx = -1
    for _ in range(nth):
        idx = src.find(old, idx + 1)
        if idx < 0:
            sys.exit("OLD text not found (%d-th occurrence) in %s" % (nth, rel))
    mutated = src[:idx] + new + src[idx + len(old):]
    diff = "".join(difflib.unified_diff(src.splitlines(True), mutated.splitlines(True), "a/" + rel, "b/" + rel))
    d = os.path.join(HERE, "mutants", pid)
    os.makedirs(d, exist_ok=True)
    open(os.path.join(d, name + ".diff"), "w").write(diff)
    print("wrote", os.path.join(d, name + ".diff"))
main()
