#!/bin/bash
# runs every thorough check sequentially, evidence/out redirected so the committed evidence is untouched
cd "$(dirname "$0")/.."
mkdir -p .work/thorough
for c in "$@"; do
  /usr/bin/time -f "$c wall %es" env VERIF_EVIDENCE_DIR=$PWD/.work/thorough/ev VERIF_OUT_DIR=$PWD/.work/thorough/out ./check $c thorough > .work/thorough/$c.log 2>&1
  echo "== $c exit=$? $(grep -c VIOLATION .work/thorough/$c.log) violations"; grep -v KNOWN .work/thorough/$c.log | tail -3 | cut -c1-400
done
