"""Per-property manifest entries.  A property appears in CHECKS once its check exists and is quiet
on the unchanged tree; until then it is listed under NOT_APPLICABLE as 'not yet built'."""
ALL = ["C%02d" % i for i in range(1, 21)]

CHECKS = {
 "C20": dict(
    text="Generated model trees (public/private/shadowing/non-string keys, nested Containers, ListContainers, dicts, lists) with mutated relatives decide the equality laws against an independent model_eq; rule-based histories with an aliasing-aware ordered model decide presentation and copy/deepcopy/pickle independence after every step; search/search_all against an independent DFS; hexundump(hexdump) enumerated for all line sizes 1..64 around line boundaries plus random data.",
    ref="DESIGN.md §3 C20",
    note="Trusted: CPython dict/list/pickle/copy semantics, Hypothesis. No NaN values, no cyclic containers, no None leaves in search trees.",
    technique="property-based testing (Hypothesis recursive strategies + rule-based state machine) against an independent model; bounded enumeration for hex helpers"),
}

NOT_APPLICABLE = [dict(property_id=p, reason="check not yet built in this revision of /verif (planned, see DESIGN.md §3)") for p in ALL if p not in CHECKS]
