"""Per-property manifest entries.  A property appears in CHECKS once its check exists and is quiet
on the unchanged tree; until then it is listed under NOT_APPLICABLE as 'not yet built'."""
ALL = ["C%02d" % i for i in range(1, 21)]

CHECKS = {
 "C20": dict(
    text="Generated model trees (public/private/shadowing/non-string keys, nested Containers, ListContainers, dicts, lists) with mutated relatives decide the equality laws against an independent model_eq; rule-based histories with an aliasing-aware ordered model decide presentation and copy/deepcopy/pickle independence after every step; search/search_all against an independent DFS; hexundump(hexdump) enumerated for all line sizes 1..64 around line boundaries plus random data.",
    ref="DESIGN.md §3 C20",
    note="Trusted: CPython dict/list/pickle/copy semantics, Hypothesis. No NaN values, no cyclic containers, no None leaves in search trees.",
    technique="property-based testing (Hypothesis recursive strategies + rule-based state machine) against an independent model; bounded enumeration for hex helpers"),
 "C11": dict(
    text="Expression ASTs are translated to construct.expr objects through the Python operators (incl. reflected forms) and evaluated against an independent operator-module evaluator, and eval(repr(expr)) with placeholders bound must denote the same function; all depth<=1 trees over the full leaf/operator table and all depth-2 trees over a reduced table are enumerated on small-integer contexts, random trees to depth 5 on typed contexts.",
    ref="DESIGN.md §3 C11",
    note="'~' is logical not (documented). Excluded: trees mixing this/obj_, list_, 'in', str % expr (handled by str.__mod__ before the library sees it), astronomically large values (skipped, counted).",
    technique="bounded-exhaustive enumeration + Hypothesis random trees against an independent evaluator (differential) and eval(repr) (metamorphic)"),
 "C15": dict(
    text="XOR (every 1-byte key int/bytes, all-zero and almost-zero keys of every length 1..80, random keys x data, key as constant/this/lambda), rotation (all amounts -64..64 x groups 1..8 x 0..3 groups, bad lengths must raise RotationError on parse and build), ByteSwapped/BitsSwapped on sized and streaming implementations, and zlib/gzip/bzip2/lzma x levels inside Prefixed, each against an independently written definition; inner construct must see the inverse transform, build must emit the transform, both round trips must be identities.",
    ref="DESIGN.md §3 C15",
    note="Trusted: stdlib codecs (compressed bytes validated by stdlib decompression, not byte identity; gzip embeds a timestamp).",
    technique="exhaustive enumeration of parameter grids + Hypothesis random data against independent reference definitions"),
}

NOT_APPLICABLE = [dict(property_id=p, reason="check not yet built in this revision of /verif (planned, see DESIGN.md §3)") for p in ALL if p not in CHECKS]
