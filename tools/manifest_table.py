"""Per-property manifest entries.  A property appears in CHECKS once its check exists and is quiet
on the unchanged tree; until then it is listed under NOT_APPLICABLE as 'not yet built'."""
ALL = ["C%02d" % i for i in range(1, 21)]

CHECKS = {
 "C20": dict(
    text="Generated model trees (public/private/shadowing/non-string keys, nested Containers, ListContainers, dicts, lists) with mutated relatives decide the equality laws against an independent model_eq; rule-based histories with an aliasing-aware ordered model decide presentation and copy/deepcopy/pickle independence after every step; search/search_all against an independent DFS; hexundump(hexdump) enumerated for all line sizes 1..64 around line boundaries plus random data.",
    ref="DESIGN.md §3 C20",
    note="Trusted: CPython dict/list/pickle/copy semantics, Hypothesis. No NaN values, no cyclic containers, no None leaves in search trees.",
    technique="property-based testing (Hypothesis recursive strategies + rule-based state machine) against an independent model; bounded enumeration for hex helpers"),
 "C11": dict(
    text="Expression ASTs are translated to construct.expr objects through the Python operators (incl. reflected forms) and evaluated against an independent operator-module evaluator, and eval(repr(expr)) with placeholders bound must denote the same function; all depth<=1 trees over the full leaf/operator table and all depth-2 trees over a reduced table are enumerated on small-integer contexts, random trees to depth 5 on typed contexts.",
    ref="DESIGN.md §3 C11",
    note="'~' is logical not (documented). Excluded: trees mixing this/obj_, list_, 'in', str % expr (handled by str.__mod__ before the library sees it), astronomically large values (skipped, counted).",
    technique="bounded-exhaustive enumeration + Hypothesis random trees against an independent evaluator (differential) and eval(repr) (metamorphic)"),
 "C15": dict(
    text="XOR (every 1-byte key int/bytes, all-zero and almost-zero keys of every length 1..80, random keys x data, key as constant/this/lambda), rotation (all amounts -64..64 x groups 1..8 x 0..3 groups, bad lengths must raise RotationError on parse and build), ByteSwapped/BitsSwapped on sized and streaming implementations, and zlib/gzip/bzip2/lzma x levels inside Prefixed, each against an independently written definition; inner construct must see the inverse transform, build must emit the transform, both round trips must be identities.",
    ref="DESIGN.md §3 C15",
    note="Trusted: stdlib codecs (compressed bytes validated by stdlib decompression, not byte identity; gzip embeds a timestamp).",
    technique="exhaustive enumeration of parameter grids + Hypothesis random data against independent reference definitions"),
 "C01": dict(
    text="Spec trees drawn from a shared combinator grammar (sound by construction: greedy nodes only in tail position, injective tables, unambiguous Select, byte-aligned bit regions) are realised as construct objects and paired with boundary-biased values of their own domain and keyword contexts; parse(build(v)) must equal the normalisation computed by an independent reference model, a model-free projection of the supplied plain members must come back unchanged, and build(parse(build(v))) must reproduce the bytes.",
    ref="DESIGN.md §3 C01",
    note="Trusted: pbt/refmodel.py for the normalisation of derived members (validated by agreement on the unchanged tree and by mutants), Python codecs. Non-injective formats are excluded from the value domain.",
    technique="property-based testing (Hypothesis, recursive grammar of constructs + dependent value generation): round trip against a reference normalisation"),
 "C02": dict(
    text="For generated sequential specs, byte strings from six sources (random, boundary, bytes built by the construct, bytes built by the independent model, and mutations of both) are parsed; every accepted input must re-build, re-parse to an equal value (members that build derives by itself masked) and re-build to identical bytes; construct-built bytes must be reproduced exactly. All gallery and deprecated_gallery formats are run on their blobs and on mutated blob prefixes, UTIndex on all one-byte heads.",
    ref="DESIGN.md §3 C02",
    note="Excluded: BOM codecs, gzip byte identity, Timestamp. deprecated_gallery.cap_file is a recorded known finding (drops microseconds).",
    technique="property-based testing with mutation-based input generation; idempotence (metamorphic) oracle"),
 "C03": dict(
    text="Differential against an independent executable specification (pbt/refmodel.py, never imports construct): build bytes, parsed value, stream advance and accept/reject status must agree for generated core-fragment specs x values x byte strings x invalid values; every numeric type through each public name with all 8-bit and (thorough) all 16-bit values, boundary values to 128 bits, every binary16 pattern, VarInt/ZigZag enumerated below 2^21, every byte through generated Flag/Enum/FlagsEnum/Mapping instances.",
    ref="DESIGN.md §3 C03",
    note="Trusted: the reference model (its own bugs surface as disagreement on the unchanged tree), exact-rational IEEE-754 codec, Python codecs. Ill-typed build objects are not generated.",
    technique="differential testing against a reference model: exhaustive enumeration of small domains + Hypothesis for composites"),
 "C06": dict(
    text="Core-class spec trees (plus Select/Optional/Peek/Pointer/Union/RawCopy/Terminated templates) are parsed on random, boundary-biased, huge-length and mutated-canonical byte strings through an operation-counting stream with a CPU-time bound: the outcome must be a value or a ConstructError. Every strict prefix of every canonical encoding of specs without greedy/optional/look-ahead parts must raise exactly StreamError. For parse and build, the k-th stream operation is made to fail for every k and every fault kind (OSError, ValueError, UnsupportedOperation, short read, short write) and streams are made non-seekable/non-tellable: the outcome must be the fault-free one or StreamError, never a foreign exception nor (for specs without failure-absorbing parts) different values/bytes.",
    ref="DESIGN.md §3 C06",
    note="Termination is decided up to a stream-operation budget on the outer stream plus 10 CPU-seconds per input of a few dozen bytes. Excluded by documentation: Compressed/Pickled/Numpy/Timestamp/Encrypted, data-dependent Restreamed widths, zero-width repetition. A read(n>=2) returning n-1 bytes is the short-read fault; zero bytes is ordinary EOF.",
    technique="fuzzing with structured generators (Hypothesis) + systematic fault injection over every stream-operation index; oracle = exception class / fault-free differential"),
 "C05": dict(
    text="Enumeration of every 'integer or context lambda' constructor parameter (28 sites) x 7 spellings of the reference (this.k, this['k'], this._params.k, attribute/item lambdas, arithmetic) x 55 wrappers (incl. constructors that call sizeof at construction time) x nested wrappers x contexts with the key supplied/withheld/zero: sizeof must answer an int >= 0 or SizeofError. Generated spec trees with keyword parameters (lengths, counts, moduli, bit widths, switch keys, conditions from _params) x contexts supplying all/some/none of the keys x generated values: whenever sizeof answers n, build_stream at offsets 0 and 3 advances by n and parse_stream of built+random trailing bytes advances by n.",
    ref="DESIGN.md §3 C05",
    note="Exempt by documentation: negative lengths / modulus < 2, parse-advance of ProcessXor/RotateLeft/NullStripped (read to end of stream). Sibling references under sizeof are expected to give SizeofError.",
    technique="bounded-exhaustive enumeration of parameter sites + Hypothesis generated specs; oracle = exception class and measured stream advance"),
 "C18": dict(
    text="Generated nested shapes with uniquely named members: every truncation offset of every canonical encoding, mutated canonical data rejected by validation, values with one member made unbuildable (out of range, wrong length, unencodable, unknown label), and sizeof on shapes with unsizable/context-dependent members. The independent reference model (and a static sizeof analysis) records which read or validation fails first and the names enclosing it; ConstructError.path must equal the operation marker followed by exactly those names.",
    ref="DESIGN.md §3 C18",
    note="Trusted: reference model's read order (validated on the unchanged tree). Macro-internal names of documented expansions (PrefixedArray count/items) count as declared names. Failure-absorbing constructs excluded from the truncation clause.",
    technique="property-based testing with exhaustive truncation offsets per case; oracle = failing-member path predicted by a reference model"),
 "C10": dict(
    text="Field layouts partitioning 8..96 bits (BitsInteger 1..32 bits signed/swapped, Bit/Nibble/Octet, Flag, Padding, Array, nested Struct, Bytewise(BytesInteger) islands) are realised three ways - Bitwise(Struct) statically sized (asserted Transformed), BitStruct, and with every width taken from keyword parameters (asserted Restreamed) - and compared with big-integer concatenation of two's-complement patterns for build and parse. All 128 compositions of 8 bits x all 256 inputs x signed/unsigned; all (quick: strided) compositions of 16 bits x probe inputs; thorough: 16 layouts x all 65536 inputs; random layouts/values beyond.",
    ref="DESIGN.md §3 C10",
    note="Widths sum to a multiple of 8 and byte-swapping only for multiples of 8 (documented preconditions).",
    technique="exhaustive enumeration of small layouts/values + Hypothesis random layouts; oracle = independent big-integer arithmetic, two implementations differential"),
 "C12": dict(
    text="Every '<-->' law in core.py docstrings and docs/*.rst and the documented operator spellings are instantiated (246 instances: widths 1..16 x signed x swapped, all alias names, Optional/If/Padding/PrefixedArray/BitStruct/AlignedStruct/Enum/FlagsEnum/Hex/HexDump, x[n], a+b, a>>b, name/x, x*doc, Bitwise/Bytewise vs Restreamed). All sides of an instance must parse each input to equal values with equal stream advance or all reject, and build each value to identical bytes or all reject; inputs are all byte strings of length 0..2 for layouts <= 2 bytes (quick: 2-byte strided), boundary strings of layout length -1/0/+1/+2 beyond, and a table of boundary/out-of-range/ill-typed values, plus random ones.",
    ref="DESIGN.md §3 C12",
    note="'Reject' = any exception. Objects that are integers only via __index__ are not generated. Restreamed docstring argument order slip noted in DESIGN.md.",
    technique="bounded-exhaustive enumeration of law instances x inputs + Hypothesis; oracle = pairwise extensional equality (differential between equivalent constructs)"),
 "C13": dict(
    text="Per generated instance, exhaustively: Const over 1-byte/multi-byte/VarInt/bytes/string subs (every 1-byte input, every bit flip of longer encodings; build from None, equal values, every other value), OneOf/NoneOf/ExprValidator/Check with generated predicates over every 1-byte value in both directions (accept iff predicate, ValidationError/CheckError otherwise), Enum/FlagsEnum/Mapping with generated tables (multi-bit and overlapping masks included) over every 1-byte input and every label spelling, unknown labels -> MappingError, unmapped integers of any magnitude preserved, Mapping never returns a value outside its table. Error below all wrapper chains of depth <= 2 (31 wrappers) and random chains of depth 3-4, compared with a twin whose Error is replaced by a recording probe: probe reached => ExplicitError must escape, for parse and build.",
    ref="DESIGN.md §3 C13",
    note="Const.build equality is Python equality (documented). Peek does not build its inner construct (documented). Zero-width GreedyRange elements and lazy wrappers are excluded from Error chains.",
    technique="exhaustive enumeration of one-byte domains per generated instance (Hypothesis generates instances); twin-construct differential for Error propagation"),
 "C08": dict(
    text="Chains of up to 4 delimiters (Prefixed with 5 length-field types and includelength, FixedSized, NullTerminated with every include/consume/require combination and 1/2/4-byte terminators, NullStripped, OffsettedEnd, ProcessXor) wrap an observing Struct(Tell, GreedyBytes|Bytes(k)|RawCopy|Pointer, Tell) and are parsed from stream offsets 0..12 with random prefix/payload/suffix. An independent slicer computes from the raw bytes the region each delimiter must present and the contractual outer position; the check compares region content, absolute Tell/RawCopy/Pointer offsets, the outer tell() after parse_stream (also when the inner construct consumes less than the region) and demands StreamError for overlong regions. Single delimiters are enumerated over region lengths 0..12 x 6 start offsets x observers.",
    ref="DESIGN.md §3 C08",
    note="Tell/Pointer inside Transformed/Restreamed/ProcessRotateLeft/Compressed are documented as unsupported and not generated.",
    technique="property-based testing (Hypothesis) + enumeration of region lengths; oracle = independent region slicer over the raw bytes"),
 "C09": dict(
    text="Peek, Pointer (absolute and end-relative, parse and build), Select, Optional, GreedyRange and Union (parsefrom None/index/name) over alternatives from a pool of fixed, variable, validating and nested constructs plus generated ones, on random bytes, valid encodings, 'almost valid' encodings (corrupted or truncated at a byte position inside an alternative) and concatenations, from start offsets 0..3. Each member parsed in isolation from a fresh stream at the same offset is the reference: values, end positions, position restoration after failure, SelectError with restored position, and that builds write only what the chosen alternative writes. Every byte position x 3 corruptions and every truncation of sample encodings is enumerated.",
    ref="DESIGN.md §3 C09",
    note="Members are context-free (isolation is well defined); GreedyRange elements consume at least one byte.",
    technique="metamorphic property-based testing: combinator result vs. members parsed in isolation"),
 "C14": dict(
    text="RawCopy around generated inner constructs in six placements (top level at offsets 0..5, after a prefix member, inside Prefixed and FixedSized regions, in an Array, nested in another RawCopy): data must equal the outer-stream slice between the reported absolute offsets, length their difference, inner.parse(data) the value, builds from value/data/parsed result identical, offsets observed while building (through Rebuild members) correct, build_file == build. Checksum over RawCopy regions with crc32/adler32/md5/sha1/sha256/truncated/8-bit digests in three layouts: built messages verify, a stale supplied digest is recomputed, hash(region.data)==checksum on every accepted (also mutated) input, and every single-bit corruption of a structure-stable region or of the digest raises exactly ChecksumError.",
    ref="DESIGN.md §3 C14",
    note="hashlib/zlib trusted. Structure-stable = fixed-size region without validating members.",
    technique="property-based testing + exhaustive single-bit fault injection per generated message"),
 "C07": dict(
    text="Generated nesting shapes (Struct/Sequence/FocusedSeq/Union/LazyStruct scopes to depth 4, with constant- and keyword-count Arrays and GreedyRange between them) carry a marker member with a known value in every scope; reference paths of every form (this.x, this._.x ..., this._root.x, this._params.k, this._._.k, this._index, mode flags at any `_` depth, attribute/item spelling) are planted before and after child scopes in the roles value (Computed/Rebuild, also forward references), length (Bytes), count (Array) and selector (Switch/IfThenElse/If). An independent scope-chain model (pbt/refmodel.py scopes + a sizing-mode size model) gives the expected built bytes, parsed value, consumed length and sizeof (or SizeofError when a path points at data); all must agree. The three mode flags are enumerated at depths 1..4 in every role.",
    ref="DESIGN.md §3 C07",
    note="Scope rules from docs/meta.rst. LazyStruct scopes only reference keyword parameters and flags and are not placed inside GreedyRange elements (documented restrictions: unparsed members cannot be referenced, 'things may break'). _index is not referenced after its repetition ended, nor under sizeof.",
    technique="property-based testing with a targeted shape generator; differential against an independent scope-chain model for parse, build and sizeof"),
 "C16": dict(
    text="Member lists mixing fixed, context-sized, length-prefixed and unsizable members are realised as LazyStruct, as LazyArray elements and as Lazy(x) members of a Struct, top-level and nested in a parent Struct that uses a lazy member during the parse; on canonical and mutated inputs at offsets 0..3, generated access histories (name, index, attribute, keys/values/items, iteration, len, slices, repeats; all permutations of fixed lists) are compared member by member with the eager Struct/Array parse; stream position after parse_stream and before/after every access must match; builds from lazy results must equal builds from eager results.",
    ref="DESIGN.md §3 C16",
    note="LazyContainer == Container not used as oracle. Negative indices and cross references excluded; Lazy(x) only over measurable x.",
    technique="model-based property testing over access histories; oracle = eager parse of the same bytes"),
 "C17": dict(
    text="Pools of constructs realised from generated specs, with one realised instance shared by a Struct, a Sequence and an Array parent, plus compiled forms, receive histories of 10-40 interleaved parse/build/sizeof/compile calls on valid, truncated, mutated and ill-typed inputs (also one invalid leaf in an otherwise valid value); every outcome must equal the outcome on a freshly realised never-used copy, and a structural snapshot of vars() of every pooled construct (and of every module-level singleton) must be unchanged afterwards. Entry points (parse on bytes/bytearray/memoryview, parse_stream at offsets 0..3, parse_file; build, build_stream at offsets, build_file) must agree. The same call plan run by 8 barrier-started threads with a 1 microsecond switch interval must reproduce the sequential outcomes.",
    ref="DESIGN.md §3 C17",
    note="The thread clause is best effort: the harness does not own the scheduler, so it can expose shared mutable attributes but not rule out rare interleavings. Rebuffered/Debugger excluded (documented mutable state). Compiled forms receive valid input only (generated code skips checks).",
    technique="model-based property testing over call histories; oracle = fresh-copy differential + structural immutability snapshot; stress threads"),
}

NOT_APPLICABLE = [dict(property_id=p, reason="check not yet built in this revision of /verif (planned, see DESIGN.md §3)") for p in ALL if p not in CHECKS]
