#!/venv/bin/python
"""Writes MANIFEST.json from the table below (kept in one place so the manifest stays valid)."""
import json, os, sys
HERE = os.path.dirname(os.path.dirname(os.path.abspath(__file__)))
sys.path.insert(0, HERE)
from tools.manifest_table import CHECKS, NOT_APPLICABLE

def main():
    checks = []
    for pid, c in sorted(CHECKS.items()):
        checks.append(dict(
            property_id=pid,
            quick_cmd="./check %s quick" % pid,
            thorough_cmd="./check %s thorough" % pid,
            evidence_file="/verif/evidence/%s.json" % pid,
            replay_cmd_template="./check %s --replay {path}" % pid,
            engine="hypothesis",
            level_claimed=dict(category="exploration", text=c["text"], design_ref=c["ref"]),
            level_note=c["note"],
            technique=c["technique"],
        ))
    m = dict(
        version=1,
        setup_cmd="/venv/bin/python -c 'import hypothesis' 2>/dev/null || /venv/bin/pip install --no-index --find-links /opt/veriftools/wheels hypothesis",
        hooks=dict(guard="CONSTRUCT_VERIF", enable="no source hooks are needed; checks import /repo's working tree directly (pure Python)",
                   baseline_off_cmd="cd /repo && /venv/bin/python -m pytest -ra -q -p no:cacheprovider --timeout=900 --continue-on-collection-errors",
                   source_commits=[], add_only=True),
        engines=[dict(name="hypothesis", path="/venv/lib/python3.12/site-packages/hypothesis", serves_properties=sorted(CHECKS),
                      kind_free_text="property-based testing: recursive strategies, rule-based state machines, shrinking; plus exhaustive enumeration of small finite sub-domains")],
        checks=checks,
        notes="All checks are generated-input searches against explicit oracles (see DESIGN.md). ./check <ID> quick|thorough; replay with ./check <ID> --replay <file>. Known/fixed findings: known_findings.txt.",
        not_applicable=NOT_APPLICABLE,
    )
    json.dump(m, open(os.path.join(HERE, "MANIFEST.json"), "w"), indent=1)
    print("wrote MANIFEST.json with %d checks, %d not_applicable" % (len(checks), len(NOT_APPLICABLE)))
main()
