#!/bin/bash
# usage: import_seed.sh <ID> <suffix> <worktree>   -> copies seed files, verifies demo + tests, removes the worktree
set -u
id=$1; suf=$2; wt=$3
d=/verif/seeded/$id-$suf
mkdir -p $d && cp $wt/seed/patch.diff $wt/seed/demo.py $wt/seed/NOTES.md $d/ || exit 1
/verif/tools/verify_seed.sh $d --tests
git -C /repo worktree remove --force $wt
