"""Pristine-process server for C17's process-global-state campaign.

Started as `python -m pbt.zygote` (one per campaign shard). It imports the library and the spec realiser but never parses,
builds or sizes anything itself, so every child it forks starts from the state "library imported, never used".
Protocol on stdin/stdout: 4-byte big-endian length + pickle.  Request: dict(specs, calls, order).  Reply: {call index: digest}
or ("timeout",) / ("harness", text).
"""
import os
import pickle
import signal
import struct
import sys

VERIF_DIR = os.path.dirname(os.path.dirname(os.path.abspath(__file__)))
REPO = os.environ.get("VERIF_REPO", "/repo")


def main():
    sys.dont_write_bytecode = True
    for p in (os.path.join(VERIF_DIR, "stubs"), REPO, VERIF_DIR):
        if p in sys.path:
            sys.path.remove(p)
    sys.path.insert(0, VERIF_DIR)
    sys.path.insert(0, os.path.join(VERIF_DIR, "stubs"))
    sys.path.insert(0, REPO)
    import construct
    f = os.path.realpath(construct.__file__)
    if not f.startswith(os.path.realpath(REPO) + os.sep):
        sys.exit(3)
    from pbt.props import c17
    inp, out = sys.stdin.buffer, sys.stdout.buffer
    while True:
        hdr = inp.read(4)
        if len(hdr) < 4:
            return
        req = pickle.loads(inp.read(struct.unpack(">I", hdr)[0]))
        r, w = os.pipe()
        pid = os.fork()
        if pid == 0:
            os.close(r)
            signal.alarm(30)            # default action: the child dies, the parent sees a truncated reply
            try:
                res = c17.run_plan(req)
            except BaseException as e:  # noqa
                res = ("harness", "%s: %s" % (type(e).__name__, e))
            data = pickle.dumps(res)
            with os.fdopen(w, "wb") as fw:
                fw.write(data)
            os._exit(0)
        os.close(w)
        with os.fdopen(r, "rb") as fr:
            data = fr.read()
        os.waitpid(pid, 0)
        try:
            pickle.loads(data)
        except Exception:
            data = pickle.dumps(("timeout",))
        out.write(struct.pack(">I", len(data)) + data)
        out.flush()


if __name__ == "__main__":
    main()
