"""IEEE-754 binary16/32/64 encode/decode with exact rational arithmetic (no struct module)."""
import math
from fractions import Fraction

FORMATS = {2: (5, 10), 4: (8, 23), 8: (11, 52)}


class Overflow(Exception):
    pass


def decode(bits, nbytes):
    """bit pattern (int) -> python float (exact; NaN for any NaN pattern)"""
    ebits, mbits = FORMATS[nbytes]
    sign = bits >> (ebits + mbits)
    e = (bits >> mbits) & ((1 << ebits) - 1)
    m = bits & ((1 << mbits) - 1)
    bias = (1 << (ebits - 1)) - 1
    if e == (1 << ebits) - 1:
        if m:
            return float("nan")
        return -math.inf if sign else math.inf
    if e == 0:
        val = Fraction(m, 1) * Fraction(2) ** (1 - bias - mbits)
    else:
        val = Fraction((1 << mbits) + m, 1) * Fraction(2) ** (e - bias - mbits)
    f = float(val)
    if f == 0.0 and sign:
        return -0.0
    return -f if sign else f


def is_nan_pattern(bits, nbytes):
    ebits, mbits = FORMATS[nbytes]
    e = (bits >> mbits) & ((1 << ebits) - 1)
    return e == (1 << ebits) - 1 and (bits & ((1 << mbits) - 1)) != 0


def encode(v, nbytes):
    """python float/int -> bit pattern, round-to-nearest-even; raises Overflow where struct raises OverflowError.
    NaN gives a canonical quiet NaN (callers compare NaNs by predicate)."""
    ebits, mbits = FORMATS[nbytes]
    bias = (1 << (ebits - 1)) - 1
    emax = (1 << ebits) - 1
    v = float(v) if not isinstance(v, float) else v
    if v != v:
        return (emax << mbits) | (1 << (mbits - 1))
    sign = 1 if math.copysign(1.0, v) < 0 else 0
    top = sign << (ebits + mbits)
    if math.isinf(v):
        return top | (emax << mbits)
    if v == 0:
        return top
    f = Fraction(abs(v))
    e = f.numerator.bit_length() - f.denominator.bit_length()
    while Fraction(2) ** e > f:
        e -= 1
    while Fraction(2) ** (e + 1) <= f:
        e += 1
    if e < 1 - bias:
        q = f / Fraction(2) ** (1 - bias - mbits)
        m = round(q)
        if m == 1 << mbits:
            return top | (1 << mbits)
        return top | m
    q = f / Fraction(2) ** (e - mbits)
    m = round(q)
    if m == 1 << (mbits + 1):
        m >>= 1
        e += 1
    ef = e + bias
    if ef >= emax:
        raise Overflow
    return top | (ef << mbits) | (m - (1 << mbits))
