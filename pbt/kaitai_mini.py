"""Interpreter for the KSY dialect that construct's export_ksy emits (C19).

Follows the documented Kaitai Struct meaning of the keys used:  type (uN/sN/fN with be/le, bN bit fields read MSB-first,
vlq_base128_le, str, strz, user types under `types`, `instances` with `pos`), size, size-eos, repeat (expr|eos|until),
contents, terminator/include/consume/eos-error, pad-right, encoding, if.  Expression values are the Python-style strings the
exporter writes (this['n'], bare sibling ids, `_`), evaluated with the fields parsed so far.
"""
import re
import struct


class Uninterpretable(Exception):
    """the schema cannot be given a meaning (aspect names the reason)"""

    def __init__(self, aspect, detail=""):
        super().__init__("%s: %s" % (aspect, detail))
        self.aspect = aspect


class KsyMismatch(Exception):
    """the schema has a meaning but the data does not satisfy it (contents mismatch, end of stream)"""


class Field:
    __slots__ = ("id", "start", "end", "value", "children")

    def __init__(self, id, start, end, value, children=None):
        self.id, self.start, self.end, self.value, self.children = id, start, end, value, children

    def __repr__(self):
        return "Field(%r, %d..%d, %r)" % (self.id, self.start, self.end, self.value)


class Stream:
    def __init__(self, data, pos=0, end=None, base=0):
        self.data, self.pos, self.end, self.base = data, pos, len(data) if end is None else end, base
        self.bitpos = 0     # bits already consumed of the byte at pos-1 (0 = aligned)

    def align(self):
        self.bitpos = 0

    def read(self, n):
        self.align()
        if n < 0 or self.pos + n > self.end:
            raise KsyMismatch("end of stream: need %d bytes at %d, region ends at %d" % (n, self.pos, self.end))
        d = self.data[self.pos:self.pos + n]
        self.pos += n
        return d

    def read_bits(self, n):
        v = 0
        for _ in range(n):
            if self.bitpos == 0:
                if self.pos >= self.end:
                    raise KsyMismatch("end of stream in bit field")
                self.pos += 1
            byte = self.data[self.pos - 1]
            v = (v << 1) | ((byte >> (7 - self.bitpos)) & 1)
            self.bitpos = (self.bitpos + 1) % 8
        return v

    def tell(self):
        return self.base + self.pos


PRIM = re.compile(r"^([usf])(\d+)(be|le)?$")
BITS = re.compile(r"^b(\d+)$")


class _Outward(dict):
    """a scope whose missing names are looked up in the enclosing scopes (second pass of C19: see Schema.scope_fallback)"""
    def __missing__(self, key):
        parent = dict.get(self, "_")
        while parent is not None:
            if key in parent:
                return parent[key]
            parent = parent.get("_")
        raise KeyError(key)


class Schema:
    def __init__(self, doc, enum_base=None, scope_fallback=False):
        self.scope_fallback = scope_fallback    # grant helper types the names of the sequences they are used in
        self.doc = doc
        self.enum_base = enum_base      # primitive type granted to enum fields that name only their table (second pass of C19)
        self.types = doc.get("types") or {}
        self.enums = doc.get("enums") or {}
        self.instances = doc.get("instances") or {}

    def parse(self, data, start=0):
        st = Stream(data, start)
        try:
            fields = self.parse_seq(self.doc.get("seq") or [], st, None)
        except RecursionError:
            raise Uninterpretable("recursion", "a type or instance of the schema refers to itself without end")
        return fields, st.tell()

    # -- expressions -------------------------------------------------------------------------
    def ev(self, e, this, last=None):
        if isinstance(e, dict) and "$repr" in e:
            e = e["$repr"]
        if isinstance(e, (int, bool)):
            return e
        if not isinstance(e, str):
            raise Uninterpretable("expression", "not a string or integer: %r" % (e,))
        env = {"this": _Outward(this) if self.scope_fallback else this, "_": last if last is not None else this.get("_"), "len_": len, "sum_": sum, "min_": min,
               "max_": max, "abs_": abs, "__builtins__": {}}
        scope = this
        while scope is not None:
            for k, v in scope.items():
                if isinstance(k, str) and k.isidentifier() and k not in env:
                    env[k] = v
            scope = scope.get("_") if self.scope_fallback else None
        try:
            return eval(e, env)
        except Exception as ex:
            raise Uninterpretable("expression", "%r does not evaluate: %r" % (e, ex))

    # -- sequences ---------------------------------------------------------------------------
    def parse_seq(self, seq, st, parent_this):
        this = {"_": parent_this} if parent_this is not None else {}
        fields = []
        for entry in seq:
            if "if" in entry and not self.ev(entry["if"], this):
                continue
            fid = entry.get("id")
            rep = entry.get("repeat")
            start = st.tell() if not BITS.match(str(entry.get("type", ""))) else None
            try:
                f = self._parse_entry(entry, rep, fid, st, this)
            except (Uninterpretable, KsyMismatch) as e:
                if not hasattr(e, "where"):
                    e.where = []
                e.where.insert(0, fid)
                raise
            f.id = fid
            fields.append(f)
            if fid is not None:
                this[fid] = f.value
        return fields

    def _parse_entry(self, entry, rep, fid, st, this):
            if rep is None:
                return self.parse_one(entry, st, this)
            else:
                st.align()
                start = st.tell()
                items = []
                if rep == "expr":
                    n = self.ev(entry.get("repeat-expr"), this)
                    for _ in range(n):
                        items.append(self.parse_one(entry, st, this))
                elif rep == "eos":
                    while st.pos < st.end:
                        items.append(self.parse_one(entry, st, this))
                elif rep == "until":
                    while True:
                        it = self.parse_one(entry, st, this)
                        items.append(it)
                        if self.ev(entry.get("repeat-until"), this, last=it.value):
                            break
                else:
                    raise Uninterpretable("repeat", repr(rep))
                return Field(fid, start, st.tell(), [i.value for i in items], items)

    def parse_one(self, entry, st, this):
        t = entry.get("type")
        # instances are lazily evaluated fields at an absolute position: they take no space in the sequence
        if isinstance(t, str) and t in self.instances:
            inst = dict(self.instances[t])
            pos = self.ev(inst.pop("pos"), this)
            sub = Stream(st.data, pos, None, st.base)
            f = self.parse_one(inst, sub, this)
            return Field(None, st.tell(), st.tell(), f.value, f.children)
        if "contents" in entry:
            want = bytes(entry["contents"])
            start = st.tell()
            got = st.read(len(want))
            if got != want:
                raise KsyMismatch("contents mismatch")
            return Field(None, start, st.tell(), got)
        if isinstance(t, str) and BITS.match(t) and "size" not in entry:
            n = int(BITS.match(t).group(1))
            start_bits = (st.pos * 8 - ((8 - st.bitpos) % 8))
            v = st.read_bits(n)
            f = Field(None, start_bits, start_bits + n, v)
            if entry.get("-construct-render") == "Flag":
                f.value = bool(v)
            return f
        st.align()
        start = st.tell()
        # delimit the region
        region = None
        if "size" in entry and not (t in ("strz",) and False):
            n = self.ev(entry["size"], this)
            if isinstance(n, str):
                n = self.ev(n, this)
            raw_end = st.pos + n
            if n < 0 or raw_end > st.end:
                raise KsyMismatch("size %r exceeds the stream" % (n,))
            region = Stream(st.data, st.pos, raw_end, st.base)
            st.pos = raw_end
        elif entry.get("size-eos"):
            region = Stream(st.data, st.pos, st.end, st.base)
            st.pos = st.end
        if "terminator" in entry:
            term = entry["terminator"]
            if region is None:
                region = Stream(st.data, st.pos, st.end, st.base)
                standalone = True
            else:
                standalone = False
            idx = region.data.find(bytes([term]), region.pos, region.end)
            if idx < 0:
                if entry.get("eos-error", True):
                    raise KsyMismatch("terminator not found")
                cut, after = region.end, region.end
            else:
                cut = idx + 1 if entry.get("include") else idx
                after = idx + 1 if entry.get("consume", True) else idx
            if standalone:
                st.pos = after
            region = Stream(region.data, region.pos, cut, region.base)
        if "pad-right" in entry and region is not None:
            e = region.end
            while e > region.pos and region.data[e - 1] == entry["pad-right"]:
                e -= 1
            region = Stream(region.data, region.pos, e, region.base)
        src = region if region is not None else st
        if t is None:
            if region is None:
                raise Uninterpretable("field", "neither type nor size: %r" % (entry,))
            return Field(None, start, st.tell(), region.data[region.pos:region.end])
        if t in ("str", "strz"):
            enc = entry.get("encoding", "ascii")
            if region is None:
                if t == "str":
                    raise Uninterpretable("str", "str without size")
                idx = st.data.find(b"\x00", st.pos, st.end)
                if idx < 0:
                    raise KsyMismatch("strz terminator not found")
                raw = st.data[st.pos:idx]
                st.pos = idx + 1
            else:
                raw = region.data[region.pos:region.end]
                if t == "strz":
                    idx = raw.find(b"\x00")
                    if idx >= 0:
                        raw = raw[:idx]
            try:
                return Field(None, start, st.tell(), raw.decode(enc))
            except Exception as ex:
                raise KsyMismatch("undecodable string: %r" % ex)
        if t == "vlq_base128_le":
            v, shift = 0, 0
            while True:
                b = src.read(1)[0]
                v |= (b & 0x7f) << shift
                shift += 7
                if not b & 0x80:
                    break
            return Field(None, start, st.tell() if region is None else st.tell(), v)
        m = PRIM.match(t)
        if m:
            kind, n, endian = m.group(1), int(m.group(2)), m.group(3)
            if endian is None and n > 1:
                raise Uninterpretable("primitive", "multi-byte %s without endianness" % t)
            raw = src.read(n)
            if kind == "f":
                if n not in (2, 4, 8):
                    raise Uninterpretable("primitive", t)
                v = struct.unpack((">" if endian != "le" else "<") + {2: "e", 4: "f", 8: "d"}[n], raw)[0]
            else:
                v = int.from_bytes(raw, "little" if endian == "le" else "big", signed=(kind == "s"))
            f = Field(None, start, st.tell(), v)
            if entry.get("-construct-render") == "Flag":
                f.value = bool(v)
            return f
        if t in self.types:
            sub = self.parse_seq(self.types[t].get("seq") or [], src, this)
            return Field(None, start, st.tell(), _as_value(sub), sub)
        if t in self.enums and self.enum_base:
            m = PRIM.match(self.enum_base)
            kind, n, endian = m.group(1), int(m.group(2)), m.group(3)
            raw = src.read(n)
            v = int.from_bytes(raw, "little" if endian == "le" else "big", signed=(kind == "s"))
            table = self.enums[t]
            label = table.get(str(v), table.get(v, v))      # (keys are strings after the JSON round trip)
            return Field(None, start, st.tell(), label)
        if t in self.enums:
            raise Uninterpretable("enum-without-integer-type", "field type %r names an enum table but no underlying integer type (width, byte order)" % t)
        raise Uninterpretable("unknown-type", repr(t))


def _as_value(fields):
    named = [f for f in fields if f.id is not None]
    if len(named) == len(fields):
        return {f.id: f.value for f in fields}
    return [f.value for f in fields]
