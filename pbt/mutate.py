"""Byte-string mutators as Hypothesis strategies: canonical encodings -> non-canonical / malformed candidates."""
from hypothesis import strategies as st


@st.composite
def mutated(draw, data, max_ops=3):
    """apply 1..max_ops mutations (bit flip, byte set, insert, delete, truncate, duplicate, append)"""
    data = bytearray(data)
    for _ in range(draw(st.integers(1, max_ops))):
        op = draw(st.sampled_from(["flip", "flip", "set", "set", "insert", "delete", "truncate", "dup", "append", "inc", "dec"]))
        n = len(data)
        if op in ("flip", "set", "delete", "inc", "dec", "dup") and n == 0:
            op = "append"
        if op == "flip":
            i = draw(st.integers(0, n - 1))
            data[i] ^= 1 << draw(st.integers(0, 7))
        elif op == "set":
            i = draw(st.integers(0, n - 1))
            data[i] = draw(st.sampled_from([0x00, 0xff, 0x80, 0x7f, 0x01, 0xfe, 0x81]))
        elif op == "inc":
            i = draw(st.integers(0, n - 1))
            data[i] = (data[i] + 1) & 0xff
        elif op == "dec":
            i = draw(st.integers(0, n - 1))
            data[i] = (data[i] - 1) & 0xff
        elif op == "insert":
            i = draw(st.integers(0, n))
            data[i:i] = draw(st.binary(min_size=1, max_size=3))
        elif op == "delete":
            i = draw(st.integers(0, n - 1))
            j = min(n, i + draw(st.integers(1, 3)))
            del data[i:j]
        elif op == "truncate":
            data = data[:draw(st.integers(0, n))]
        elif op == "dup":
            i = draw(st.integers(0, n - 1))
            j = min(n, i + draw(st.integers(1, 4)))
            data[j:j] = data[i:j]
        else:
            data += draw(st.binary(min_size=1, max_size=4))
    return bytes(data)


def byte_inputs(canonical=None):
    """inputs from four sources: random, boundary-biased, canonical, mutated canonical"""
    srcs = [st.binary(max_size=24),
            st.builds(lambda b, n: bytes([b]) * n, st.sampled_from([0, 0xff, 0x80, 0x7f, 1]), st.integers(0, 24))]
    if canonical is not None:
        srcs += [st.just(canonical), mutated(canonical), mutated(canonical), mutated(canonical)]
    return st.one_of(srcs)


def spec_tokens(spec):
    """byte strings a spec mentions (pads, terminators, constants, patterns): the dictionary for padded_tails()"""
    out = []

    def walk(x):
        if isinstance(x, (bytes, bytearray)) and 1 <= len(x) <= 6:
            if bytes(x) not in out:
                out.append(bytes(x))
        elif isinstance(x, (list, tuple)):
            for e in x:
                walk(e)
    walk(spec)
    return out


@st.composite
def padded_tails(draw, canonical, tokens):
    """the canonical encoding (or a slightly shortened one) followed by a run of the spec's own pad/terminator strings, the last
    of them possibly cut short from either side: whole units, a unit's prefix, a unit's suffix"""
    data = canonical[:len(canonical) - draw(st.integers(0, min(2, len(canonical))))] if draw(st.integers(0, 3)) == 0 else canonical
    tok = draw(st.sampled_from(tokens))
    out = tok * draw(st.integers(0, 3))
    if len(tok) > 1:
        cut = draw(st.integers(1, len(tok) - 1))
        out += draw(st.sampled_from([tok[:cut], tok[-cut:], b""]))
    if draw(st.integers(0, 3)) == 0:
        out = draw(st.binary(min_size=1, max_size=2)) + out
    return data + out
