"""Streams for C06/C17: operation counting (termination bound) and fault injection."""
import io

from pbt.harness import OpBudgetExceeded


class CountingStream(io.BytesIO):
    """BytesIO that counts read/write/seek/tell calls; beyond `budget` it raises a BaseException-derived error that
    the library's `except Exception` handlers cannot swallow (deterministic stand-in for "does not terminate")."""

    def __init__(self, data=b"", budget=None):
        super().__init__(data)
        self.ops = 0
        self.budget = budget
        self.log = []

    def _op(self, name):
        self.ops += 1
        if self.budget is not None and self.ops > self.budget:
            raise OpBudgetExceeded("more than %d stream operations" % self.budget)

    def read(self, *a):
        self._op("read")
        return super().read(*a)

    def write(self, data):
        self._op("write")
        return super().write(data)

    def seek(self, *a):
        self._op("seek")
        return super().seek(*a)

    def tell(self):
        self._op("tell")
        return super().tell()


FAULT_KINDS = ["raise-OSError", "raise-ValueError", "raise-Unsupported", "short"]


class FaultyStream(io.BytesIO):
    """The k-th operation (0-based, over read/write/seek/tell) misbehaves:
       raise-*: raises that exception;  short: read(n) returns one byte less than available/requested,
       write(d) stores one byte less and returns the short count.
       `deny` is a set of operation names that always raise io.UnsupportedOperation (non-seekable / non-tellable)."""

    def __init__(self, data=b"", k=None, kind=None, deny=()):
        super().__init__(data)
        self.ops = 0
        self.k = k
        self.kind = kind
        self.deny = set(deny)
        self.triggered = None

    def _fault(self, name):
        i = self.ops
        self.ops += 1
        if self.ops > 20000:
            raise OpBudgetExceeded("runaway")
        if name in self.deny:
            self.triggered = name
            raise io.UnsupportedOperation("%s not supported" % name)
        if self.k is not None and i == self.k:
            if self.kind == "raise-OSError":
                self.triggered = name
                raise OSError("injected fault in %s" % name)
            if self.kind == "raise-ValueError":
                self.triggered = name
                raise ValueError("I/O operation on closed file (injected in %s)" % name)
            if self.kind == "raise-Unsupported":
                self.triggered = name
                raise io.UnsupportedOperation("injected: %s" % name)
            return True
        return False

    def read(self, *a):
        short = self._fault("read")
        n = a[0] if a and a[0] is not None else -1
        if short and n is not None and n >= 2:
            # fewer bytes than requested but not zero: zero bytes is the ordinary end-of-stream signal, not a fault
            self.triggered = "read"
            return super().read(n - 1)
        return super().read(*a)

    def write(self, data):
        short = self._fault("write")
        if short and len(data) > 0:
            self.triggered = "write"
            return super().write(data[:-1])
        return super().write(data)

    def seek(self, *a):
        self._fault("seek")
        return super().seek(*a)

    def tell(self):
        self._fault("tell")
        return super().tell()

    def seekable(self):
        return "seek" not in self.deny

    def tellable(self):
        return "tell" not in self.deny
