"""Spec trees (plain JSON data) and realise(spec) -> construct object built from /repo's working tree.

A spec is a list [kind, *params]; sub-specs are nested lists, expressions are pbt.exprs ASTs (or plain ints).
See DESIGN.md §2.2 for the node families.  Nothing here asks the library about semantics; static
attributes (fixed size, build-from-None, greedy) are computed by this module's own analysis.
"""
import enum as _enum
import sys

from pbt import exprs as X

NATIVE_LITTLE = sys.byteorder == "little"

INT_ALIAS_WIDTHS = (1, 2, 3, 4, 8)
SHORT_INT = {1: "Byte", 2: "Short", 4: "Int", 8: "Long"}
SHORT_FLOAT = {2: "Half", 4: "Single", 8: "Double"}
FF_INT = {(1, False): "B", (2, False): "H", (4, False): "L", (8, False): "Q",
          (1, True): "b", (2, True): "h", (4, True): "l", (8, True): "q"}
FF_FLOAT = {2: "e", 4: "f", 8: "d"}
ENDCHAR = {"b": ">", "l": "<", "n": "="}
ENC_UNIT = {"ascii": 1, "utf8": 1, "utf_8": 1, "u8": 1, "utf_16_le": 2, "utf_16_be": 2, "utf16": 2, "utf_16": 2, "u16": 2,
            "utf_32_le": 4, "utf_32_be": 4, "utf32": 4, "utf_32": 4, "u32": 4, "UTF-8": 1, "utf-16-le": 2}

SCOPED = ("struct", "seq", "fseq", "bitstruct", "alignedstruct", "union", "lazystruct")


def discards(spec):
    """optional trailing flag of the repetition kinds: ["array", n, sub, style, True], ["grange", sub, True], ["runtil", pred, sub, True]"""
    k = spec[0]
    i = {"array": 4, "grange": 2, "runtil": 3}.get(k)
    return i is not None and len(spec) > i and spec[i] is True


def is_expr(x):
    return isinstance(x, list) and x and x[0] in ("this", "obj", "const", "bin", "un", "fn", "lam")


def ev(x):
    """expression AST or constant -> parameter for a construct class"""
    return X.to_expr(x) if is_expr(x) else x


def _lambda_of(ast):
    """same function as the AST but as a plain context lambda (attribute-style access on Container)"""
    def f(ctx):
        return X.evaluate(ast, ctx)
    return f


def param(x, as_lambda=False):
    if is_expr(x):
        return _lambda_of(x) if as_lambda else X.to_expr(x)
    return x


def int_name(nbytes, signed, endian):
    return "Int%d%s%s" % (nbytes * 8, "s" if signed else "u", endian)


def float_name(nbytes, endian):
    return "Float%d%s" % (nbytes * 8, endian)


_enum_cache = {}


def _intenum(pairs, flag=False):
    key = (tuple((k, v) for k, v in pairs), flag)
    if key not in _enum_cache:
        base = _enum.IntFlag if flag else _enum.IntEnum
        _enum_cache[key] = base("E%d" % len(_enum_cache), [(k, v) for k, v in pairs])
    return _enum_cache[key]


def enum_table(spec):
    """[label, value] pairs an Enum spec actually knows: keyword labels all count; merging an enum class merges what iterating
    the class yields, which leaves out aliases (a later name for an already declared value)"""
    if (spec[3] if len(spec) > 3 else "kw") != "intenum":
        return spec[2]
    seen, out = set(), []
    for l, v in spec[2]:
        if v not in seen:
            seen.add(v)
            out.append([l, v])
    return out


def realise(spec):
    """spec -> construct object (public names, constructors, macros and operators)"""
    import construct as C
    k = spec[0]
    R = realise
    if k == "int":
        _, n, signed, endian, via = spec[:5]
        if via == "alias":
            return getattr(C, int_name(n, signed, endian))
        if via == "short":
            return getattr(C, SHORT_INT[n])
        if via == "ff":
            return C.FormatField(ENDCHAR[endian], FF_INT[(n, signed)])
        swapped = {"b": False, "l": True, "n": NATIVE_LITTLE}[endian]
        return C.BytesInteger(n, signed=signed, swapped=swapped)
    if k == "float":
        _, n, endian, via = spec[:4]
        if via == "alias":
            return getattr(C, float_name(n, endian))
        if via == "short":
            return getattr(C, SHORT_FLOAT[n])
        return C.FormatField(ENDCHAR[endian], FF_FLOAT[n])
    if k == "bint":             # BytesInteger with context-dependent length and/or byte order
        return C.BytesInteger(param(spec[1]), signed=spec[2], swapped=param(spec[3]))
    if k == "varint":
        return C.VarInt
    if k == "zigzag":
        return C.ZigZag
    if k == "bytes":
        return C.Bytes(param(spec[1]))
    if k == "gbytes":
        return C.GreedyBytes
    if k == "pstr":
        return C.PaddedString(param(spec[1]), spec[2])
    if k == "pascal":
        return C.PascalString(R(spec[1]), spec[2])
    if k == "cstr":
        return C.CString(spec[1])
    if k == "gstr":
        return C.GreedyString(spec[1])
    if k == "flag":
        return C.Flag
    if k == "enum":
        via = spec[3] if len(spec) > 3 else "kw"
        if via == "intenum":
            return C.Enum(R(spec[1]), _intenum(spec[2]))
        return C.Enum(R(spec[1]), **{l: v for l, v in spec[2]})
    if k == "flagsenum":
        via = spec[3] if len(spec) > 3 else "kw"
        if via == "intenum":
            return C.FlagsEnum(R(spec[1]), _intenum(spec[2], flag=True))
        return C.FlagsEnum(R(spec[1]), **{l: v for l, v in spec[2]})
    if k == "mapping":
        return C.Mapping(R(spec[1]), {o: v for o, v in spec[2]})
    if k == "const":
        if spec[2] is None:
            return C.Const(spec[1])
        return C.Const(spec[1], R(spec[2]))
    if k == "computed":
        return C.Computed(param(spec[1]))
    if k == "pass":
        return C.Pass
    if k == "padding":
        return C.Padding(param(spec[1]), pattern=spec[2]) if spec[2] != b"\x00" else C.Padding(param(spec[1]))
    if k == "terminated":
        return C.Terminated
    if k == "error":
        return C.Error
    if k == "check":
        return C.Check(param(spec[1]))
    if k == "stopif":
        return C.StopIf(param(spec[1]))
    if k == "index":
        return C.Index
    if k == "tell":
        return C.Tell
    if k == "oneof":
        return C.OneOf(R(spec[1]), list(spec[2]))
    if k == "noneof":
        return C.NoneOf(R(spec[1]), list(spec[2]))
    if k == "exprsym":          # self-inverse adapter: value = raw ^ k
        return C.ExprSymmetricAdapter(R(spec[1]), C.obj_ ^ spec[2])
    if k == "expradd":          # value = raw + k
        return C.ExprAdapter(R(spec[1]), C.obj_ + spec[2], C.obj_ - spec[2])
    if k == "exprvalid":        # value < k
        return C.ExprValidator(R(spec[1]), C.obj_ < spec[2])
    if k == "lazybound":
        inner = R(spec[1])
        return C.LazyBound(lambda: inner)
    if k == "bits":
        return C.BitsInteger(param(spec[1]), signed=spec[2], swapped=spec[3])
    if k == "bit":
        return C.Bit
    if k == "nibble":
        return C.Nibble
    if k == "octet":
        return C.Octet
    if k == "bittail":
        return C.GreedyBytes       # inside a bit-level region: every remaining bit, one byte (0 or 1) each
    if k in ("struct", "seq", "bitstruct", "alignedstruct", "lazystruct", "union"):
        members = spec[1] if k not in ("alignedstruct", "union") else spec[2]
        subs = []
        for name, s in members:
            if s[0] == "docs" and len(s) > 3 and s[3] == "outer" and name:
                subs.append((name / R(s[1])) * s[2])     # "name" / field * "docs": docs applied to the named member
                continue
            c = R(s)
            subs.append((name / c) if name else c)
        if k == "struct":
            style = spec[2] if len(spec) > 2 else "ctor"
            if style == "plus" and len(subs) >= 2 and all(not isinstance(s, C.Struct) for s in subs):
                acc = subs[0] + subs[1]
                for s in subs[2:]:
                    acc = acc + s
                return acc
            if style == "kw" and members and all(n for n, _ in members) and len({n for n, _ in members}) == len(members) \
                    and not any(s[0] == "docs" and len(s) > 3 and s[3] == "outer" for _, s in members):
                return C.Struct(**{name: R(s) for name, s in members})      # keyword spelling (order is the order given)
            return C.Struct(*subs)
        if k == "seq":
            style = spec[2] if len(spec) > 2 else "ctor"
            if style == "rshift" and len(subs) >= 2 and all(not isinstance(s, C.Sequence) for s in subs):
                acc = subs[0] >> subs[1]
                for s in subs[2:]:
                    acc = acc >> s
                return acc
            return C.Sequence(*subs)
        if k == "bitstruct":
            return C.BitStruct(*subs)
        if k == "lazystruct":
            return C.LazyStruct(*subs)
        if k == "union":
            return C.Union(param(spec[1]), *subs)
        return C.AlignedStruct(spec[1], *subs)
    if k == "fseq":
        subs = [(name / R(s)) if name else R(s) for name, s in spec[2]]
        return C.FocusedSeq(spec[1], *subs)
    if k == "array":
        style = spec[3] if len(spec) > 3 else "ctor"
        if discards(spec):
            return C.Array(param(spec[1]), R(spec[2]), discard=True)
        if style == "getitem":
            return R(spec[2])[param(spec[1])]
        return C.Array(param(spec[1]), R(spec[2]))
    if k == "grange":
        return C.GreedyRange(R(spec[1]), discard=True) if discards(spec) else C.GreedyRange(R(spec[1]))
    if k == "runtil":
        return C.RepeatUntil(param(spec[1]), R(spec[2]), discard=True) if discards(spec) else C.RepeatUntil(param(spec[1]), R(spec[2]))
    if k == "parray":
        return C.PrefixedArray(R(spec[1]), R(spec[2]))
    if k == "select":
        return C.Select(*[R(s) for s in spec[1]])
    if k == "optional":
        return C.Optional(R(spec[1]))
    if k == "if":
        return C.If(param(spec[1]), R(spec[2]))
    if k == "ite":
        return C.IfThenElse(param(spec[1]), R(spec[2]), R(spec[3]))
    if k == "switch":
        cases = {key: R(s) for key, s in spec[2]}
        if spec[3] is None:
            return C.Switch(param(spec[1]), cases)
        return C.Switch(param(spec[1]), cases, default=R(spec[3]))
    if k == "rebuild":
        return C.Rebuild(R(spec[1]), param(spec[2]))
    if k == "default":
        return C.Default(R(spec[1]), param(spec[2]))
    if k == "prefixed":
        if spec[3]:
            return C.Prefixed(R(spec[1]), R(spec[2]), includelength=True)
        return C.Prefixed(R(spec[1]), R(spec[2]))
    if k == "fixedsized":
        return C.FixedSized(param(spec[1]), R(spec[2]))
    if k == "padded":
        return C.Padded(param(spec[1]), R(spec[2]), pattern=spec[3])
    if k == "aligned":
        return C.Aligned(param(spec[1]), R(spec[2]), pattern=spec[3])
    if k == "nullterm":
        return C.NullTerminated(R(spec[1]), term=spec[2], include=spec[3], consume=spec[4], require=spec[5])
    if k == "nullstrip":
        return C.NullStripped(R(spec[1]), pad=spec[2])
    if k == "bitwise":
        return C.Bitwise(R(spec[1]))
    if k == "bytewise":
        return C.Bytewise(R(spec[1]))
    if k == "byteswapped":
        return C.ByteSwapped(R(spec[1]))
    if k == "bitsswapped":
        return C.BitsSwapped(R(spec[1]))
    if k == "xor":
        return C.ProcessXor(param(spec[1]), R(spec[2]))
    if k == "rol":
        return C.ProcessRotateLeft(param(spec[1]), param(spec[2]), R(spec[3]))
    if k == "compressed":
        return C.Compressed(R(spec[1]), spec[2], level=spec[3])
    if k == "hex":
        return C.Hex(R(spec[1]))
    if k == "hexdump":
        return C.HexDump(R(spec[1]))
    if k == "seek":
        return C.Seek(param(spec[1]), spec[2])
    if k == "namedtuple":
        return C.NamedTuple("T", " ".join(spec[1]), R(spec[2]))
    if k == "restreamdata":
        return C.RestreamData(spec[1], R(spec[2]))
    if k == "peek":
        return C.Peek(R(spec[1]))
    if k == "pointer":
        return C.Pointer(param(spec[1]), R(spec[2]))
    if k == "rawcopy":
        return C.RawCopy(R(spec[1]))
    if k == "defaultrc":
        # a RawCopy region with a default: the default (a Container holding the value) is an object the construct owns
        return C.Default(C.RawCopy(R(spec[1])), C.Container(value=spec[2]))
    if k == "lazy":
        return C.Lazy(R(spec[1]))
    if k == "lazyarray":
        return C.LazyArray(param(spec[1]), R(spec[2]))
    if k == "offsettedend":
        return C.OffsettedEnd(param(spec[1]), R(spec[2]))
    if k == "docs":
        return R(spec[1]) * spec[2]
    raise ValueError("unknown spec kind %r" % (k,))


# ---------------------------------------------------------------------------------------------
# static attributes (own analysis)
# ---------------------------------------------------------------------------------------------
def children(spec):
    """direct sub-specs"""
    k = spec[0]
    if k in ("struct", "seq", "bitstruct", "lazystruct"):
        return [s for _, s in spec[1]]
    if k in ("fseq", "alignedstruct", "union"):
        return [s for _, s in spec[2]]
    if k in ("enum", "flagsenum", "mapping", "oneof", "noneof", "grange", "optional", "rebuild", "default", "bitwise",
             "bytewise", "byteswapped", "bitsswapped", "hex", "hexdump", "peek", "rawcopy", "lazy", "nullterm", "nullstrip",
             "compressed", "docs", "exprsym", "expradd", "exprvalid", "lazybound"):
        return [spec[1]]
    if k == "const":
        return [spec[2]] if spec[2] is not None else []
    if k in ("array", "runtil", "if", "fixedsized", "padded", "aligned", "xor", "pointer", "lazyarray", "offsettedend", "namedtuple",
             "restreamdata"):
        return [spec[2]]
    if k == "pascal":
        return [spec[1]]
    if k in ("parray", "prefixed"):
        return [spec[1], spec[2]]
    if k == "select":
        return list(spec[1])
    if k == "ite":
        return [spec[2], spec[3]]
    if k == "switch":
        return [s for _, s in spec[2]] + ([spec[3]] if spec[3] is not None else [])
    if k == "rol":
        return [spec[3]]
    return []


def walk(spec):
    yield spec
    for c in children(spec):
        yield from walk(c)


def kinds(spec):
    return {s[0] for s in walk(spec)}


def depth(spec):
    cs = children(spec)
    return 1 + max([depth(c) for c in cs] or [0])


def buildnone(spec):
    """can the construct be built from None / a missing key (documented per class)"""
    k = spec[0]
    if k in ("const", "computed", "rebuild", "default", "check", "error", "pass", "padding", "tell", "terminated", "stopif",
             "index", "peek", "optional"):
        return True
    if k in ("struct", "seq", "bitstruct", "lazystruct"):
        return all(buildnone(s) for _, s in spec[1])
    if k == "alignedstruct":
        return all(buildnone(s) for _, s in spec[2])
    if k in ("fseq", "union"):
        return False
    if k == "select":
        return any(buildnone(s) for s in spec[1])
    if k == "if":
        return buildnone(spec[2])
    if k == "ite":
        return buildnone(spec[2]) and buildnone(spec[3])
    if k == "switch":
        return all(buildnone(s) for _, s in spec[2]) and (spec[3] is None or buildnone(spec[3]))
    if k in ("exprsym", "expradd", "exprvalid", "lazybound"):
        return False        # (LazyBound does not inherit the flag of the construct it produces)
    if k in ("enum", "flagsenum", "mapping", "oneof", "noneof", "grange", "bitwise", "bytewise", "byteswapped",
             "bitsswapped", "hex", "hexdump", "rawcopy", "lazy", "nullterm", "nullstrip", "compressed", "docs"):
        return buildnone(spec[1])
    if k in ("array", "runtil", "fixedsized", "padded", "aligned", "xor", "pointer", "lazyarray", "offsettedend", "prefixed"):
        return buildnone(spec[2])
    if k == "rol":
        return buildnone(spec[3])
    if k in ("pstr", "cstr", "gstr"):
        return False
    if k == "pascal":
        return False
    if k == "parray":
        return False
    return False


def fixed_size(spec, bit=False):
    """size in stream units (bytes, or bits inside a bit-level region) when statically constant, else None"""
    k = spec[0]

    def const(x):
        return x if isinstance(x, int) and not isinstance(x, bool) else None
    if k == "int":
        return spec[1]
    if k == "float":
        return spec[1]
    if k in ("bytes", "pstr", "fixedsized", "padded", "bint"):
        return const(spec[1])
    if k == "padding":
        return const(spec[1])
    if k == "flag":
        return 1
    if k in ("enum", "flagsenum", "mapping", "oneof", "noneof", "rebuild", "default", "hex", "hexdump", "docs", "byteswapped",
             "bitsswapped", "exprsym", "expradd", "exprvalid"):
        return fixed_size(spec[1], bit)
    if k == "const":
        return fixed_size(spec[2], bit) if spec[2] is not None else len(spec[1])
    if k in ("computed", "pass", "check", "index", "tell", "peek", "pointer"):
        return 0
    if k == "bits":
        return const(spec[1])
    if k == "bit":
        return 1
    if k == "nibble":
        return 4
    if k == "octet":
        return 8
    if k in ("struct", "seq", "bitstruct", "lazystruct", "fseq", "alignedstruct"):
        members = spec[1] if k in ("struct", "seq", "bitstruct", "lazystruct") else spec[2]
        total = 0
        for _, s in members:
            if s[0] == "stopif":
                return None
            f = fixed_size(s, bit or k == "bitstruct")
            if f is None:
                return None
            if k == "alignedstruct":
                f += -f % spec[1]
            total += f
        if k == "bitstruct":
            return total // 8 if total % 8 == 0 else None
        return total
    if k in ("array", "lazyarray"):
        c, f = const(spec[1]), fixed_size(spec[2], bit)
        return None if c is None or f is None else c * f
    if k == "aligned":
        m, f = const(spec[1]), fixed_size(spec[2], bit)
        return None if m is None or f is None else f + (-f % m)
    if k == "prefixed":
        a, b = fixed_size(spec[1], bit), fixed_size(spec[2], bit)
        return None if a is None or b is None else a + b
    if k == "bitwise":
        f = fixed_size(spec[1], True)
        return None if f is None or f % 8 else f // 8
    if k == "bytewise":
        f = fixed_size(spec[1], False)
        return None if f is None else f * 8
    if k == "if":
        return None
    if k == "ite":
        a, b = fixed_size(spec[2], bit), fixed_size(spec[3], bit)
        return a if a is not None and a == b else None
    if k in ("xor", "rol"):
        return None
    return None


def greedy(spec):
    """reads to the end of its stream (so only valid in tail position of a delimited region)"""
    k = spec[0]
    if k in ("gbytes", "gstr", "grange", "nullstrip", "xor", "rol", "compressed", "terminated", "optional", "offsettedend", "bittail"):
        return True
    if k == "nullterm":
        return not spec[5]
    if k in ("struct", "seq", "fseq", "bitstruct", "alignedstruct"):
        members = spec[1] if k in ("struct", "seq", "bitstruct") else spec[2]
        return any(greedy(s) for _, s in members)
    if k in ("prefixed", "fixedsized", "pstr", "pascal", "cstr"):
        return False
    if k == "select":
        return True
    return any(greedy(c) for c in children(spec))


def exprs_in(spec):
    """yield (expression AST, nesting level relative to spec's own scope) for every expression parameter"""
    def rec(s, level):
        k = s[0]
        for p in _expr_params(s):
            if is_expr(p):
                yield p, level
        inner = level + (1 if k in SCOPED else 0)
        for c in children(s):
            yield from rec(c, inner)
    yield from rec(spec, 0)


def expr_param_indices(s):
    k = s[0]
    if k in ("bytes", "pstr", "computed", "check", "stopif", "padding", "array", "runtil", "if", "ite", "switch", "fixedsized",
             "padded", "aligned", "xor", "pointer", "lazyarray", "offsettedend", "bits"):
        return [1]
    if k in ("rebuild", "default"):
        return [2]
    if k == "rol":
        return [1, 2]
    if k == "bint":
        return [1, 3]
    return []


def _expr_params(s):
    return [s[i] for i in expr_param_indices(s)]
