"""C02 — re-encoding parsed data is canonical and stable (idempotence of build after parse)."""
import glob
import importlib
import math
import os

from hypothesis import strategies as st

import construct as C

from pbt import grammar as G
from pbt import refmodel as R
from pbt import values as V
from pbt.mutate import byte_inputs, mutated
from pbt.harness import Failure, call, short
from pbt.props.c03 import focus_kind

RULE = ("sequential non-seeking spec trees x byte strings from four sources (random, boundary-biased, canonical encodings "
        "built by the construct itself, canonical encodings with bit flips/insertions/deletions/truncations/non-minimal "
        "VarInts) plus every gallery format on its blobs and mutated blob prefixes; oracle: if parse(d) accepts with v then "
        "b1=build(v) succeeds, parse(b1)==v, build(parse(b1))==b1, and b1==d when d was produced by the construct. "
        "non-trivial = parse accepted and d is not already canonical, or the spec has a normalising member")
ASSUMPTIONS = ["BOM codecs utf16/utf32 excluded (stdlib decode/encode asymmetry)", "gzip excluded (wall clock in output)",
               "lib values compared structurally with NaN == NaN"]

FRAG = V.SEQUENTIAL - {"bomstr"}
NORMALISING = {"varint", "zigzag", "flag", "padding", "padded", "aligned", "prefixed", "select", "optional", "fixedsized", "pstr",
               "enum", "flagsenum", "nullstrip"}


def lib_eq(a, b):
    """structural equality of two library values, NaN-aware, ignoring private keys"""
    if isinstance(a, float) and isinstance(b, float):
        return (math.isnan(a) and math.isnan(b)) or (a == b and math.copysign(1, a) == math.copysign(1, b))
    if isinstance(a, dict) and isinstance(b, dict):
        ka = [k for k in dict.keys(a) if not (isinstance(k, str) and k.startswith("_"))]
        kb = [k for k in dict.keys(b) if not (isinstance(k, str) and k.startswith("_"))]
        return set(map(repr, ka)) == set(map(repr, kb)) and all(lib_eq(dict.__getitem__(a, k), dict.__getitem__(b, k)) for k in ka)
    if isinstance(a, (list, tuple)) and isinstance(b, (list, tuple)):
        return len(a) == len(b) and all(lib_eq(x, y) for x, y in zip(a, b))
    if type(a) is not type(b) and not (isinstance(a, (int, str, bytes)) and isinstance(b, type(a).__mro__[-2] if False else (int, str, bytes))):
        return False
    try:
        return bool(a == b)
    except Exception:
        return False


def rebuild_names(spec):
    out = set()
    for s in G.walk(spec):
        if s[0] in ("struct", "seq", "bitstruct", "lazystruct"):
            members = s[1]
        elif s[0] in ("fseq", "alignedstruct"):
            members = s[2]
        else:
            continue
        for name, sub in members:
            if name and sub[0] == "rebuild":
                out.add(name)
    return out


DERIVED = "<derived by build>"


def mask(spec, v, names):
    """replace members that build derives by itself (Rebuild) by a marker: build discards what parse read there and
    regenerates it, like padding bytes or prefixes, so only the re-encoded bytes (not that member) must be stable"""
    k = spec[0]
    if k == "rebuild":
        return DERIVED
    if k in ("struct", "bitstruct", "alignedstruct", "lazystruct") and isinstance(v, dict):
        members = spec[2] if k == "alignedstruct" else spec[1]
        subs = {name: sub for name, sub in members if name}
        return {kk: (mask(subs[kk], vv, names) if kk in subs else vv) for kk, vv in dict.items(v)
                if not (isinstance(kk, str) and kk.startswith("_"))}
    if k == "seq" and isinstance(v, list):
        return [mask(sub, x, names) for (name, sub), x in zip(spec[1], v)] + list(v[len(spec[1]):])
    if k == "fseq":
        for name, sub in spec[2]:
            if name == spec[1]:
                return mask(sub, v, names)
    if k in ("array", "grange", "parray", "runtil") and isinstance(v, list):
        sub = spec[1] if k == "grange" else spec[2]
        return [mask(sub, x, names) for x in v]
    cs = G.children(spec)
    if len(cs) == 1 and k not in ("enum", "flagsenum", "mapping"):
        return mask(cs[0], v, names)
    if k in ("prefixed",):
        return mask(spec[2], v, names)
    return mask_by_name(v, names)


def mask_by_name(v, names):
    if isinstance(v, dict):
        return {kk: (DERIVED if kk in names else mask_by_name(vv, names)) for kk, vv in dict.items(v)
                if not (isinstance(kk, str) and kk.startswith("_"))}
    if isinstance(v, list):
        return [mask_by_name(x, names) for x in v]
    return v


def idempotence(con, data, params, canonical, tag, where, spec=None):
    """returns (Failure|None, accepted, noncanonical)"""
    p = call(con.parse, data, **params)
    if not p.ok:
        return None, False, False
    v = p.value
    b1 = call(con.build, v, **params)
    if not b1.ok:
        return Failure("C02/rebuild-rejects-parsed/%s" % tag, "parse(%s) -> %s but build of that value raised %r | %s" % (
            short(data.hex(), 120), short(v), b1, where)), True, False
    noncanon = not data.startswith(b1.value) or len(b1.value) == 0
    if canonical and b1.value != data:
        return Failure("C02/canonical-not-reproduced/%s" % tag, "bytes built by the construct %s re-encode as %s | %s" % (
            short(data.hex(), 120), short(b1.value.hex(), 120), where)), True, True
    p2 = call(con.parse, b1.value, **params)
    if not p2.ok:
        return Failure("C02/reparse-rejects/%s" % tag, "build(parse(%s)) = %s is rejected by parse: %r | %s" % (
            short(data.hex(), 120), short(b1.value.hex(), 120), p2, where)), True, noncanon
    v1m, v2m = v, p2.value
    if spec is not None:
        names = rebuild_names(spec)
        if names:
            v1m, v2m = mask(spec, v, names), mask(spec, p2.value, names)
    if not lib_eq(v2m, v1m):
        return Failure("C02/reparse-value/%s" % tag, "parse(%s) -> %s, after re-encoding (%s) parse -> %s | %s" % (
            short(data.hex(), 120), short(v), short(b1.value.hex(), 120), short(p2.value), where)), True, noncanon
    b2 = call(con.build, p2.value, **params)
    if not b2.ok or b2.value != b1.value:
        return Failure("C02/not-idempotent/%s" % tag, "second re-encoding %r differs from the first %s (input %s) | %s" % (
            b2, short(b1.value.hex(), 120), short(data.hex(), 120), where)), True, noncanon
    return None, True, noncanon


@st.composite
def spec_bytes(draw):
    spec, params, value = draw(V.cases(frag=FRAG, depth=3, rootrefs=True))
    con = G.realise(spec)
    b = call(con.build, value, **params)
    canonical = b.value if b.ok else None
    try:
        refcanon = R.ref_build(spec, value, params)   # what the independent model emits for the same value
    except (R.Reject, R.ForeignError):
        refcanon = None
    opts = ["random", "boundary"]
    if canonical is not None:
        opts += ["canonical", "mutated", "mutated", "mutated"]
    if refcanon is not None:
        opts += ["refcanonical", "refmutated"]
    src = draw(st.sampled_from(opts))
    if src == "canonical":
        data = canonical
    elif src == "refcanonical":
        data = refcanon
    elif src == "refmutated":
        data = draw(mutated(refcanon))
    elif src == "mutated":
        data = draw(mutated(canonical))
    elif src == "random":
        data = draw(st.binary(max_size=24))
    else:
        data = bytes([draw(st.sampled_from([0, 0xff, 0x80, 0x7f, 1]))]) * draw(st.integers(0, 24))
    return [spec, params, data, src == "canonical"]


def oracle_factory(ctx):
    def oracle(case):
        spec, params, data, canonical = case
        con = G.realise(spec)
        f, accepted, noncanon = idempotence(con, data, params, canonical, focus_kind(spec), "spec=%s params=%s" % (short(spec, 500), params), spec=spec)
        normal = bool(G.kinds(spec) & NORMALISING)
        ctx.record(case, accepted and (noncanon or normal), ["accepted" if accepted else "rejected",
                                                               "canonical-input" if canonical else "other-input"] +
                   (["noncanonical-accepted"] if accepted and noncanon else []))
        return f
    return oracle


def campaign_grammar(ctx):
    ctx.search(spec_bytes(), oracle_factory(ctx), ctx.budget(20000, 320000))
campaign_grammar.shards = (10, 16)


# ---------------------------------------------------------------------------------------------
# gallery
# ---------------------------------------------------------------------------------------------
def gallery_formats():
    repo = os.environ.get("VERIF_REPO", "/repo")
    out = []
    import gallery
    import deprecated_gallery as dg
    gb = os.path.join(repo, "tests", "gallery", "blobs")
    db = os.path.join(repo, "tests", "deprecated_gallery", "blobs")
    for blob in ("python37-win32.exe", "python37-win64.exe", "SharpZipLib0860-dotnet20.dll", "sqlite3.dll"):
        out.append(("gallery.pe32file", gallery.pe32file, os.path.join(gb, blob)))
    pairs = [("png_file", "sample.png"), ("emf_file", "emf1.emf"), ("bitmap_file", "bitmap1.bmp"), ("bitmap_file", "bitmap4.bmp"),
             ("bitmap_file", "bitmap8.bmp"), ("bitmap_file", "bitmap24.bmp"), ("wmf_file", "wmf1.wmf"), ("gif_file", "sample.gif"),
             ("mbr_format", "mbr1"), ("cap_file", "cap2.cap"), ("snoop_file", "snoop1"), ("pe32_file", "python.exe"),
             ("pe32_file", "NOTEPAD.EXE"), ("pe32_file", "sqlite3.dll"), ("elf32_file", "ctypes.so")]
    for name, blob in pairs:
        out.append(("deprecated_gallery." + name, getattr(dg, name), os.path.join(db, blob)))
    return out


def uses_seeking(con, seen=None):
    """does the format contain Pointer/Seek/Peek/OffsettedEnd members?  Two members of such a format can alias the same bytes, and a
    mutated offset makes them overlap: there is then no encoding that parses back to both values (the later write wins)"""
    seen = set() if seen is None else seen
    if id(con) in seen:
        return False
    seen.add(id(con))
    if isinstance(con, (C.Pointer, C.Peek, C.OffsettedEnd)) or type(con).__name__ == "Seek":
        return True
    if isinstance(con, C.Construct):
        try:
            values = list(vars(con).values())
        except TypeError:
            return False
        return any(uses_seeking(v, seen) for v in values)
    if isinstance(con, (list, tuple)):
        return any(uses_seeking(v, seen) for v in con)
    if isinstance(con, dict):
        return any(uses_seeking(v, seen) for v in con.values())
    return False


def campaign_gallery(ctx):
    fmts = gallery_formats()
    for i, (name, con, path) in enumerate(fmts):
        if i % ctx.nshards != ctx.shard:
            continue
        data = open(path, "rb").read()
        case = ["gallery", name, os.path.basename(path)]
        f, accepted, noncanon = idempotence(con, data, {}, False, name, "%s on %s" % (name, os.path.basename(path)))
        ctx.record(case, accepted, ["gallery/" + name, "gallery/accepted" if accepted else "gallery/rejected"])
        ctx.handle(f, case)
    # UTIndex (variable-length index) on all one- and two-byte inputs
    import gallery
    ut = gallery.UTIndex()
    for b0 in range(256):
        for tail in (b"", b"\x00", b"\x40", b"\x80\x01", b"\xff\xff\xff\x0f"):
            data = bytes([b0]) + tail
            f, accepted, noncanon = idempotence(ut, data, {}, False, "gallery.UTIndex", "UTIndex")
            ctx.record(["utindex", data], accepted, ["gallery/utindex"])
            ctx.handle(f, ["utindex", data])

    # mutated prefixes of the blobs for the formats that read a bounded header
    def mut_oracle(case):
        idx, data = case
        name, con, path = fmts[idx]
        f, accepted, noncanon = idempotence(con, data, {}, False, name, "%s on a mutated prefix of %s" % (name, os.path.basename(path)))
        ctx.record([name, data[:64]], accepted and noncanon, ["gallery-mutated/" + ("accepted" if accepted else "rejected")])
        return f

    @st.composite
    def mut_cases(draw):
        idx = draw(st.sampled_from([i for i, (n, c, p) in enumerate(fmts) if os.path.getsize(p) < 200000 and not uses_seeking(c)]))
        blob = open(fmts[idx][2], "rb").read()
        return [idx, draw(mutated(blob[:draw(st.sampled_from([64, 256, 1024, len(blob)]))], max_ops=2))]
    if ctx.shard == 0:
        ctx.search(mut_cases(), mut_oracle, ctx.budget(240, 1500), name="gallery-mutated", shrink=False)
campaign_gallery.shards = (4, 8)


def protocol_samples():
    """(format name, construct, bytes) taken from the byte literals of tests/deprecated_gallery/test_protocols.py"""
    import ast
    import binascii
    import re
    import deprecated_gallery as dg
    repo = os.environ.get("VERIF_REPO", "/repo")
    src = open(os.path.join(repo, "tests", "deprecated_gallery", "test_protocols.py")).read()
    out = []
    for m in re.finditer(r"common(hex|bytes)\((\w+),\s*(b(?:\"(?:[^\"\\\\]|\\\\.)*\"))\s*\)", src):
        kind, name, lit = m.groups()
        if not hasattr(dg, name):
            continue
        try:
            raw = ast.literal_eval(lit)
            data = binascii.unhexlify(raw) if kind == "hex" else raw
        except Exception:
            continue
        out.append((name, getattr(dg, name), data))
    return out


def campaign_protocols(ctx):
    samples = protocol_samples()
    ctx.note("protocol samples", len(samples))
    for name, con, data in samples:
        f, accepted, noncanon = idempotence(con, data, {}, False, "proto." + name, "deprecated_gallery.%s on its sample" % name)
        ctx.record(["protocol", name, data], accepted, ["protocol/" + name])
        ctx.handle(f, ["protocol", name, data])

    def mut_oracle(case):
        idx, data = case
        name, con, _ = samples[idx]
        f, accepted, noncanon = idempotence(con, data, {}, False, "proto." + name, "deprecated_gallery.%s on a mutated sample" % name)
        ctx.record(["protocol-mutated", name, data], accepted and noncanon, ["protocol-mutated/" + ("accepted" if accepted else "rejected")])
        return f

    @st.composite
    def mut_cases(draw):
        idx = draw(st.integers(0, len(samples) - 1))
        return [idx, draw(mutated(samples[idx][2], max_ops=2))]
    if samples:
        ctx.search(mut_cases(), mut_oracle, ctx.budget(3000, 100000), name="protocols-mutated")
campaign_protocols.shards = (2, 8)


CAMPAIGNS = {"grammar": campaign_grammar, "gallery": campaign_gallery, "protocols": campaign_protocols}


def replay(campaign, case):
    class _C:
        def record(self, *a, **k): pass
    if campaign == "grammar":
        return oracle_factory(_C())(case)
    if campaign in ("protocols", "protocols-mutated"):
        samples = protocol_samples()
        if case[0] == "protocol":
            con = dict((n, c) for n, c, _ in samples)[case[1]]
            return idempotence(con, case[2], {}, False, "proto." + case[1], case[1])[0]
        name, con, _ = samples[case[0]]
        return idempotence(con, case[1], {}, False, "proto." + name, name)[0]
    fmts = gallery_formats()
    if case[0] == "gallery":
        for name, con, path in fmts:
            if name == case[1] and os.path.basename(path) == case[2]:
                return idempotence(con, open(path, "rb").read(), {}, False, name, name)[0]
        return None
    if case[0] == "utindex":
        import gallery
        return idempotence(gallery.UTIndex(), case[1], {}, False, "gallery.UTIndex", "UTIndex")[0]
    idx, data = case
    name, con, path = fmts[idx]
    return idempotence(con, data, {}, False, name, name)[0]
