"""C07 — context expressions resolve identically when parsing, building and sizing."""
import io

from hypothesis import strategies as st

import construct as C

from pbt import exprs as X
from pbt import grammar as G
from pbt import refmodel as R
from pbt import values as V
from pbt.harness import Failure, call, short

RULE = ("nesting shapes of Struct/Sequence/FocusedSeq/Union/LazyStruct scopes (depth 1..4) with Array (constant and keyword count), "
        "GreedyRange and RepeatUntil repetitions between them; every scope holds a marker member with a distinct value; reference "
        "paths (this.x, this._.x, this._._.x, this._root.x, this._params.k, this._._.k, this._index, this._._index, "
        "_parsing/_building/_sizing at any level, attribute and item spelling) are planted at every position in the roles "
        "value (Computed / Rebuild), length (Bytes), count (Array) and selector (Switch / IfThenElse / If); forward references "
        "(Rebuild from a later sibling) when building; oracle: an independent scope-chain model gives the referent for parse, "
        "build and sizeof; parse value, built bytes, consumed length and sizeof must agree with it and with each other. "
        "non-trivial = path length >= 2 or crossing a repetition or a non-Struct scope")
ASSUMPTIONS = ["scope rules are taken from docs/meta.rst: `_` one level out, `_root` outermost structure, `_params` call keywords, `_index` "
               "current repetition, one of _parsing/_building/_sizing", "_index is not referenced after its repetition ended (it lingers by design)",
               "Select between reference and referent excluded (accepted xfail test_select_issue_1038)"]

TAGS = [b"\xa0", b"\xa1", b"\xa2", b"\xa3", b"\xa4", b"\xa5", b"\xa6", b"\xa7", b"\xa8", b"\xa9", b"\xaa", b"\xab"]
BYTE = ["int", 1, False, "b", "alias"]


class SizeFail(Exception):
    pass


def model_sizeof(spec, sc):
    """size in 'sizeof' mode by the documented rules, or SizeFail where no data exists to resolve a reference"""
    k = spec[0]

    def ev(e):
        if not G.is_expr(e):
            return e
        try:
            return X.evaluate(e, sc)
        except (KeyError, IndexError, TypeError, AttributeError):
            raise SizeFail()
    if k == "int":
        return spec[1]
    if k in ("computed", "pass", "check"):
        return 0
    if k == "const":
        return len(spec[1]) if spec[2] is None else model_sizeof(spec[2], sc)
    if k in ("rebuild", "default", "bitwise", "bytewise"):
        return model_sizeof(spec[1], sc)     # (Bitwise(Bytewise(x)) is x seen through two transforming layers: same size)
    if k == "bytes":
        n = ev(spec[1])
        if not isinstance(n, int):
            raise SizeFail()
        return int(n)
    if k in ("struct", "seq", "lazystruct"):
        s2 = R.nested_scope(sc)
        return sum(model_sizeof(s, s2) for _, s in spec[1])
    if k == "fseq":
        s2 = R.nested_scope(sc)
        return sum(model_sizeof(s, s2) for _, s in spec[2])
    if k == "array":
        n = ev(spec[1])
        if not isinstance(n, int):
            raise SizeFail()
        return int(n) * model_sizeof(spec[2], sc)
    if k == "if":
        return model_sizeof(spec[2], sc) if ev(spec[1]) else 0
    if k == "ite":
        return model_sizeof(spec[2] if ev(spec[1]) else spec[3], sc)
    if k == "switch":
        key = ev(spec[1])
        sub = {kk: s for kk, s in spec[2]}.get(key, spec[3])
        return 0 if sub is None else model_sizeof(sub, sc)
    raise SizeFail()   # union, grange, runtil, prefixed(greedy), varint ...


# ---------------------------------------------------------------------------------------------
# shape generator (spec and value built together)
# ---------------------------------------------------------------------------------------------
class Gen:
    def __init__(self, draw, params):
        self.draw = draw
        self.params = params
        self.n = 0
        self.marker_values = []
        self.labels = set()

    def name(self, p):
        self.n += 1
        return "%s%d" % (p, self.n)


def paths_for(g, chain, has_index, in_sizeof_ok=False):
    """all reference paths meaningful at a position whose enclosing scopes (outermost first) have markers `chain`
    -> list of (path names, kind) ; kind in marker/param/index/flag"""
    L = len(chain)
    out = []
    for j in range(L):
        name, val = chain[L - 1 - j]
        if name is not None:
            out.append((["_"] * j + [name], "marker"))
    if L >= 1 and chain[0][0] is not None:
        out.append((["_root", chain[0][0]], "marker"))
        if L >= 2:
            out.append((["_", "_root", chain[0][0]], "marker"))
    for pk in sorted(g.params):
        out.append((["_params", pk], "param"))
        out.append((["_"] * L + [pk], "param"))
        if L >= 2:
            out.append((["_", "_params", pk], "param"))
            out.append((["_root", "_", pk], "param"))
    if has_index:
        for j in range(0, has_index):
            out.append((["_"] * j + ["_index"], "index"))
    for j in range(0, L + 1):
        for flag in ("_parsing", "_building", "_sizing"):
            out.append((["_"] * j + [flag], "flag"))
    return out


def gen_probe(g, chain, has_index, later_marker=None, allow=None, buildnone_only=False, fixed_layout=False, layout_role=False):
    """one planted member: (name|None, spec, value to supply or None) ; has_index = number of scopes (incl. current) that
    inherited a repetition index (0 = none)"""
    draw = g.draw
    options = [pk for pk in paths_for(g, chain, has_index) if allow is None or pk[1] in allow]
    names, kind = draw(st.sampled_from(options))
    path = ["this", names, draw(st.sampled_from(["attr", "item"]))]
    label = "path/%s/len=%d" % (kind, len(names))
    g.labels.add(label)
    if len(names) >= 2:
        g.labels.add("nontrivial")
    if kind == "flag":
        role = draw(st.sampled_from(["computed", "if", "rebuild", "ite"]))
    else:
        role = draw(st.sampled_from(["computed", "rebuild", "bytes", "switch", "array", "ite", "arith"] if not buildnone_only else
                                    ["computed", "rebuild", "switch", "ite", "arith"]))
        if fixed_layout:
            role = draw(st.sampled_from(["computed", "rebuild", "arith"]))      # the reference decides a value, never the layout
        elif layout_role:
            role = draw(st.sampled_from(["switch", "ite"] if buildnone_only else ["bytes", "array", "switch", "ite"]))   # ... or the layout for sure
    nm = g.name("p")
    if role == "computed":
        return nm, ["computed", path], None
    if role == "rebuild":
        return nm, ["rebuild", BYTE, path], None
    if role == "arith":
        e = draw(st.sampled_from([["bin", "+", path, ["const", 1]], ["bin", "*", ["const", 2], path], ["bin", "-", ["const", 20], path]]))
        return nm, ["rebuild", BYTE, e], None
    if role == "bytes":
        return nm, ["bytes", path], "FILL"
    if role == "array":
        return nm, ["array", path, BYTE], "FILLLIST"
    if role == "if":
        return nm, ["if", path, ["const", TAGS[11], None]], None
    if role == "ite":
        if kind == "flag":
            return nm, ["ite", path, ["const", TAGS[10], None], ["const", TAGS[9], None]], None
        c = draw(st.integers(0, 6))
        return nm, ["ite", ["bin", draw(st.sampled_from(["==", "<", ">="])), path, ["const", c]], ["const", TAGS[10], None], ["const", TAGS[9], None]], None
    # switch: one distinct tag per possible referent value
    cases = [[v, ["const", TAGS[v], None]] for v in range(0, 9)]
    return nm, ["switch", path, cases, ["const", TAGS[9], None]], None


def _names_in(e):
    if e[0] == "this":
        return list(e[1])
    if e[0] in ("const", "obj"):
        return []
    if e[0] == "bin":
        return _names_in(e[2]) + _names_in(e[3])
    return _names_in(e[2])


def gen_scope(g, chain, depth, has_index, in_grange=False, want_index=False, element_of_grange=False, fixed_layout=False, index_layout=False):
    """-> (spec, value) for one scope; chain = [(marker name, value)...] of enclosing scopes"""
    draw = g.draw
    # (a LazyStruct skips its members by seeking and so never notices a truncated element: not inside GreedyRange elements)
    # (a Union with parsefrom=None consumes nothing: as the element of a GreedyRange it would denote an endless list)
    kind = draw(st.sampled_from(["struct", "struct", "struct", "seq", "fseq"] + ([] if element_of_grange or fixed_layout else ["union"]) +
                                ([] if in_grange or fixed_layout else ["lazystruct"])))
    if kind != "struct":
        g.labels.add("nontrivial")
        g.labels.add("scope/" + kind)
    mval = draw(st.integers(1, 8))
    mname = g.name("m")
    if draw(st.integers(0, 5)) == 0 and kind not in ("fseq",):
        mname = "_" + mname     # a leading underscore does not make a member private to the context
    mform = draw(st.sampled_from(["plain", "plain", "const", "default"] if kind != "fseq" else ["plain", "default", "default", "const"]))
    marker = [mname, BYTE if mform == "plain" else (["const", mval, BYTE] if mform == "const" else ["default", BYTE, mval])]
    # members of a LazyStruct are not parsed until accessed, so (documented restriction) nothing may refer to them by name
    here = chain + [(mname if kind != "lazystruct" else None, mval)]
    hi = has_index + 1 if has_index else 0
    members = [marker]
    values = {mname: (mval if mform == "plain" else None)}
    fwd = None
    if kind == "struct" and draw(st.integers(0, 3)) == 0:
        # forward reference while building: a Rebuild placed BEFORE the marker sees the supplied sibling
        fwd = [g.name("f"), ["rebuild", BYTE, ["bin", "+", ["this", [mname], "attr"], ["const", 100]]]]
        members.insert(0, fwd)
        g.labels.add("forward-reference")

    # LazyStruct evaluates its members when they are accessed, possibly long after the surrounding parse; the documentation
    # restricts references to other fields ("things may break"), so inside it only keyword parameters and mode flags are referenced
    allow = ("param", "flag") if kind == "lazystruct" else None

    def add_probes(n):
        for j in range(n):
            al = allow
            if want_index and hi and j == 0 and kind != "lazystruct":
                al = ("index",)     # element of a repetition: at least one member depends on the repetition index
            if fixed_layout:
                al = ("marker", "param")
            nm, sp, val = gen_probe(g, here, hi, allow=al, buildnone_only=(kind == "fseq"), fixed_layout=fixed_layout,
                                    layout_role=(index_layout and al == ("index",)))    # (a FocusedSeq builds only its focus from a value)
            members.append([nm, sp])
            values[nm] = val
    if kind == "union":
        # every member is parsed from the same start; build writes the first one present: marker + one probe-bearing struct
        add_probes(draw(st.integers(1, 2)))
        sub_members = members[1:]
        # parsefrom: nothing, or a context expression in the Union's own scope (it sees the members just parsed) that picks the
        # member the stream is left behind by its position
        pf = None
        if mform == "plain" and not mname.startswith("_") and draw(st.integers(0, 2)) == 0:
            ref = ["this", [mname], draw(st.sampled_from(["attr", "item"]))]
            pf = draw(st.sampled_from([["bin", "*", ref, ["const", 0]], ["bin", "%", ref, ["const", 1 + len(sub_members)]]]))
            if draw(st.booleans()):
                pf = ["lam", "py", pf]
            g.labels.add("union/parsefrom-expression")
        spec = ["union", pf, [marker] + sub_members]
        # build from the marker only (first member that has a key)
        return spec, {mname: mval if mform == "plain" else None}, here
    add_probes(draw(st.integers(1 if want_index else 0, 2)))
    if depth > 1 and not (kind == "fseq" and mform == "plain") and draw(st.integers(0, 4)) != 0:
        cname = g.name("c")
        rep = draw(st.sampled_from(["none", "none", "array", "arrayk", "grange", "grange", "runtil"] if not fixed_layout else ["none", "none", "array"]))
        if kind == "lazystruct":
            # a scope nested in a LazyStruct is first measured (with the context of the parse going on) and parsed when accessed:
            # what it reads from the context - the mode flags included - must be the same both times
            rep = "none"
        # discard=True: the elements are processed (their references must resolve as ever, _index must keep counting) but not kept
        discard = rep != "none" and draw(st.integers(0, 3 if rep != "grange" else 1)) == 0
        if rep == "none":
            # a nested scope of fixed layout (references decide values only) can sit inside a SIZED transforming region
            fixed_child = fixed_layout or (kind != "fseq" and draw(st.integers(0, 5)) == 0)
            if kind == "lazystruct":
                # (no repetition index in there: the enclosing repetition has moved on by the time the scope is parsed, and a size
                #  that depends on an index cannot be measured)
                cs, cv, _ = gen_scope(g, here, 1, 0, in_grange, fixed_layout=fixed_child)
            else:
                cs, cv, _ = gen_scope(g, here, depth - 1, hi, in_grange, fixed_layout=fixed_child)
            seeking = any(n[0] in ("union", "lazystruct", "grange") for n in G.walk(cs))     # (no seeking inside a bit-level region)
            # (Bitwise sizes its inner construct when it is created: no _index then, and a layout that depends on the mode flags has
            #  one size while sizing and another while building - an ill-formed fixed-size region, not a library matter)
            sizing_index = any(nm in ("_index", "_parsing", "_building", "_sizing") for e, _ in G.exprs_in(cs) for nm in _names_in(e))
            if (draw(st.integers(0, 2)) == 0 or (fixed_child and not fixed_layout)) and kind not in ("fseq", "lazystruct") and not seeking and not sizing_index:
                # the nested scope behind two transforming layers that cancel out (bits of bytes of bits): the context must pass
                # through Transformed (sized scope) or Restreamed (unsized scope) untouched
                cs = ["bitwise", ["bytewise", cs]]
                g.labels.add("wrapped/bitwise-bytewise")
            members.append([cname, cs])
            values[cname] = cv
        else:
            g.labels.add("nontrivial")
            g.labels.add("repetition/" + rep)
            n = draw(st.integers(1, 3))
            if rep == "arrayk" and g.params:
                pk = draw(st.sampled_from(sorted(g.params)))
                n = g.params[pk]
            cs, cv, _ = gen_scope(g, here, depth - 1, 1, in_grange or rep == "grange", want_index=(discard or draw(st.integers(0, 2)) == 0) and not fixed_layout,
                                   element_of_grange=(rep == "grange"), fixed_layout=fixed_layout, index_layout=discard)   # (discarded elements show only through the layout)
            if discard:
                g.labels.add("repetition/discard")
            if rep == "array":
                members.append([cname, ["array", n, cs] + (["ctor", True] if discard else [])])
            elif rep == "arrayk" and g.params:
                members.append([cname, ["array", ["this", ["_params", pk], "attr"], cs] + (["ctor", True] if discard else [])])
            elif rep == "grange":
                members.append([cname, ["prefixed", ["varint"], ["grange", cs] + ([True] if discard else []), False]])
            else:
                # RepeatUntil over struct scopes: the predicate looks at the element's marker (obj_.m == 9), true for the last one only
                mk = [nm for nm, sp in (cs[1] if cs[0] == "struct" else []) if nm and nm.startswith("m") and sp == BYTE]
                if mk and isinstance(cv, dict) and cv.get(mk[0]) is not None:
                    members.append([cname, ["runtil", ["bin", "==", ["obj", [mk[0]]], ["const", 9]], cs] + ([True] if discard else [])])
                    vals = [dict(cv) for _ in range(n)]
                    vals[-1][mk[0]] = 9
                    values[cname] = vals
                    add_probes(draw(st.integers(0, 2)))
                    return _finish(kind, members, values, mname, mval, mform, here)
                members.append([cname, ["array", n, cs] + (["ctor", True] if discard else [])])
            values[cname] = [cv for _ in range(n)]
        add_probes(draw(st.integers(0, 2)))
    return _finish(kind, members, values, mname, mval, mform, here)


def _finish(kind, members, values, mname, mval, mform, here):
    spec_members = members
    if kind == "struct":
        return ["struct", spec_members], values, here
    if kind == "lazystruct":
        return ["lazystruct", spec_members], values, here
    if kind == "seq":
        return ["seq", spec_members], [values.get(n) for n, _ in spec_members], here
    # fseq: exactly one member is built from the supplied value (the focus), every other one from nothing: the focus is the
    # plain marker, or - when the marker is a Const/Default - the nested scope
    needy = [n for n, s in spec_members if not G.buildnone(s)]
    if len(needy) > 1 or any(n is None for n in needy):
        return ["struct", spec_members], values, here
    if needy:
        return ["fseq", needy[0], spec_members], values.get(needy[0]), here
    if mform == "const":
        return ["struct", spec_members], values, here
    # (focus built from None when the marker is a Default: the built value differs from the supplied one)
    return ["fseq", mname, spec_members], None, here


def fill(spec, value, sc, mode="build"):
    """replace FILL markers by concrete bytes/lists of the length the model resolves at build time"""
    return value


@st.composite
def cases(draw):
    params = {}
    for name in draw(st.lists(st.sampled_from(["k", "j"]), max_size=2, unique=True)):
        params[name] = draw(st.integers(0, 4))
    g = Gen(draw, params)
    depth = draw(st.integers(1, 4))
    spec, value, _ = gen_scope(g, [], depth, 0)
    # a keyword argument may carry the same name as a member (it lives in _params only and must never shadow the member,
    # nor stand in for it while sizing)
    if draw(st.integers(0, 2)) == 0:
        params = dict(params)
        params["m1"] = draw(st.integers(10, 12))
    value = resolve_fill(spec, value, R.top_scope(params, "build"))
    return [spec, params, value, sorted(g.labels)]


def resolve_fill(spec, value, sc):
    """walk spec/value like a build, replacing FILL/FILLLIST by data of the length the model computes at that point"""
    k = spec[0]
    if k in ("struct", "lazystruct", "seq", "union"):
        members = spec[1] if k != "union" else spec[2]
        s2 = R.nested_scope(sc)
        if isinstance(value, dict):
            for kk, vv in value.items():
                s2[kk] = vv
        out = {} if isinstance(value, dict) else []
        vals = value if isinstance(value, dict) else {n: v for (n, _), v in zip(members, value)}
        for name, sub in members:
            v = vals.get(name) if name else None
            if v in ("FILL", "FILLLIST"):
                try:
                    n = X.evaluate(sub[1], s2)
                except Exception:
                    n = 0
                n = int(n) if isinstance(n, (int, bool)) and 0 <= int(n) <= 300 else 0
                v = bytes((i * 7 + 1) & 0xff for i in range(n)) if v == "FILL" else [(i + 3) & 0xff for i in range(n)]
            elif isinstance(v, (dict, list)) and sub[0] in ("struct", "lazystruct", "seq", "union", "fseq"):
                v = resolve_fill(sub, v, s2)
            elif isinstance(v, list) and sub[0] in ("array", "prefixed"):
                inner = sub[2] if sub[0] == "array" else sub[2][1]
                newv = []
                for i, e in enumerate(v):
                    s2["_index"] = i
                    newv.append(resolve_fill(inner, e, s2) if isinstance(e, (dict, list)) else e)
                v = newv
            # mirror the build-time scope so later siblings resolve like the library will
            if name:
                try:
                    _, ret = R.rb(sub, v, s2) if not isinstance(v, str) else (b"", v)
                    s2[name] = ret
                except Exception:
                    s2[name] = v
            if isinstance(out, dict):
                if name and (v is not None or not G.buildnone(sub)):
                    out[name] = v
            else:
                out.append(v)
        if k == "union":
            return {kk: vv for kk, vv in out.items() if kk == members[0][0]}
        return out
    if k == "fseq":
        return value
    return value


def lazy_to_plain(v):
    """materialise LazyContainer / LazyListContainer results"""
    if type(v).__name__ == "LazyContainer":
        return {k: lazy_to_plain(v[k]) for k in v.keys()}
    if isinstance(v, dict):
        return {k: lazy_to_plain(x) for k, x in dict.items(v) if not (isinstance(k, str) and k.startswith("_"))}
    if isinstance(v, list):
        return [lazy_to_plain(x) for x in v]
    return v


def oracle_factory(ctx):
    def oracle(case):
        spec, params, value, labels = case
        con = G.realise(spec)
        where = "spec=%s params=%s value=%s" % (short(spec, 900), params, short(value, 300))
        try:
            want_bytes = R.ref_build(spec, value, params)
            want_value, want_end = R.ref_parse(spec, want_bytes + b"\x5a\x5a", params)
            status = "ok"
        except R.Reject as e:
            status = "reject"
        except R.ForeignError:
            status = "foreign"
        except (TypeError, AttributeError, KeyError):
            status = "foreign"       # value shape the generator could not complete (counted in the histogram)
        ctx.record(case, status == "ok" and "nontrivial" in labels, ["model/" + status] + [l for l in labels if l != "nontrivial"])
        if status != "ok":
            return None
        b = call(con.build, value, **params)
        if not b.ok:
            return Failure("C07/build-raises", "build raised %r; the scope model builds %s | %s" % (b, want_bytes.hex(), where))
        if b.value != want_bytes:
            return Failure("C07/build-resolution", "build -> %s, scope model -> %s (a reference resolved differently while building) | %s" % (b.value.hex(), want_bytes.hex(), where))
        s = io.BytesIO(want_bytes + b"\x5a\x5a")
        p = call(con.parse_stream, s, **params)
        if not p.ok:
            return Failure("C07/parse-raises", "parse of %s raised %r | %s" % (want_bytes.hex(), p, where))
        end_of_parse = s.tell()
        got = call(lazy_to_plain, p.value)
        if not got.ok or not V.veq(got.value, want_value):
            return Failure("C07/parse-resolution", "parse(%s) -> %s, scope model -> %s (a reference resolved differently while parsing) | %s" % (
                want_bytes.hex(), short(got, 400), short(want_value, 400), where))
        if end_of_parse != want_end:
            return Failure("C07/parse-layout", "parse consumed %d bytes, model %d | %s" % (end_of_parse, want_end, where))
        # sizeof: same layout when every reference resolves without data, SizeofError otherwise
        if any(l.startswith("path/index") for l in labels):
            return None     # there is no repetition index while sizing (the reference yields None): outside the property
        try:
            want_size = model_sizeof(spec, R.top_scope(params, "sizeof"))
        except SizeFail:
            want_size = None
        z = call(con.sizeof, **params)
        if want_size is None:
            if z.ok:
                return Failure("C07/sizeof-resolution", "sizeof -> %r although a reference points at data that does not exist while sizing | %s" % (z, where))
            if not isinstance(z.exc, C.SizeofError):
                return Failure("C07/sizeof-error-class", "sizeof raised %r | %s" % (z, where))
        else:
            if not z.ok or z.value != want_size:
                return Failure("C07/sizeof-resolution", "sizeof -> %r, scope model (sizing mode) -> %d | %s" % (z, want_size, where))
        return None
    return oracle


def campaign_shapes(ctx):
    ctx.search(cases(), oracle_factory(ctx), ctx.budget(60000, 600000))
campaign_shapes.shards = (6, 16)


def campaign_flags(ctx):
    """the three mode flags at every depth 0..4 in every role, enumerated"""
    orc = oracle_factory(ctx)
    for depth in range(0, 5):
        for up in range(0, depth + 1):
            for flag in ("_parsing", "_building", "_sizing"):
                for style in ("attr", "item"):
                    path = ["this", ["_"] * up + [flag], style]
                    probes = [["v", ["computed", path]], ["r", ["rebuild", BYTE, path]], ["i", ["if", path, ["const", b"\xab", None]]],
                              ["t", ["ite", path, ["const", b"\xaa", None], ["const", b"\xa9", None]]], ["b", ["bytes", path]]]
                    spec = ["struct", probes] if depth else ["seq", probes]
                    value = dict(b="FILL") if depth else [None, None, None, None, "FILL"]
                    for d in range(1, depth):
                        spec = ["struct", [["m%d" % d, BYTE], ["c", spec]]]
                        value = {"m%d" % d: d, "c": value}
                    if depth == 0:
                        continue
                    value = resolve_fill(spec, value, R.top_scope({}, "build"))
                    ctx.check_case([spec, {}, value, ["nontrivial", "flags-enum"]], orc)
    ctx.exhaustive("each of _parsing/_building/_sizing at depths 1..4 x every number of `_` steps x attr/item spelling x 5 roles")
campaign_flags.shards = (1, 1)


CAMPAIGNS = {"shapes": campaign_shapes, "flags": campaign_flags}


def replay(campaign, case):
    class _C:
        def record(self, *a, **k): pass
    return oracle_factory(_C())(case)
