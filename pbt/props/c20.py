"""C20 — result containers and display helpers are faithful.

Trees are generated as *model data* (never touching the library) and turned into real
Container / ListContainer / dict / list objects; every oracle is evaluated on the model data only.
"""
import copy
import pickle
import re

import hypothesis
from hypothesis import strategies as st
from hypothesis import stateful
from hypothesis.stateful import RuleBasedStateMachine, rule, invariant, precondition, initialize

from construct.lib import Container, ListContainer, hexdump, hexundump

from pbt.harness import Failure, PropertyViolation, call, short, jenc

RULE = ("trees of Container/ListContainer/dict/list with public, _private, method-shadowing and non-string keys "
        "are generated as model data together with mutated relatives (permuted, leaf changed, private/public key "
        "added, kind swapped); histories are rule-based state machines over an aliasing-aware ordered-pairs model; "
        "non-trivial = depth>=2 or contains a private/shadowing key or the pair differs in exactly one place; "
        "history cases count as non-trivial when they contain a copy/deepcopy/pickle step followed by a mutation; "
        "hex cases are non-trivial when data is not a multiple of the line size or longer than one line")
ASSUMPTIONS = ["CPython dict/list/pickle/copy semantics are the reference for plain objects",
               "values contain no NaN and no cycles",
               "search trees contain no None leaves (a matching None leaf is indistinguishable from no match)"]

SHADOW = ["items", "keys", "values", "update", "copy", "pop", "clear", "get", "search", "search_all", "popitem",
          "setdefault"]
PUBLIC = ["a", "b", "c", "d", "x1", "ab", "abc", "aba", "k"]
PRIVATE = ["_p", "_q", "__r", "_", "_io"]
NONSTR = [0, 1, 7, -1, b"k", (1, 2)]


def is_private(k):
    return isinstance(k, str) and k.startswith("_")


# ---------------------------------------------------------------------------------------------
# model data: ("C", pairs) ("D", pairs) ("L", items) ("LC", items) or a scalar
# ---------------------------------------------------------------------------------------------
scalars = st.one_of(st.none(), st.booleans(), st.integers(-3, 300), st.sampled_from(["", "s", "tt"]),
                    st.sampled_from([b"", b"\x00", b"xy"]), st.sampled_from([0.5, -1.5]))
keys_any = st.one_of(st.sampled_from(PUBLIC), st.sampled_from(PUBLIC), st.sampled_from(PRIVATE),
                     st.sampled_from(SHADOW), st.sampled_from(NONSTR))
keys_str = st.one_of(st.sampled_from(PUBLIC), st.sampled_from(PRIVATE), st.sampled_from(SHADOW))


def kind(x):
    if isinstance(x, tuple) and len(x) == 2 and x[0] in ("C", "D", "L", "LC") and isinstance(x[1], list):
        return x[0]
    return "S"


def trees(keys=keys_any, leaves=scalars, kinds=("C", "C", "D", "L", "LC"), max_leaves=12):
    def extend(children):
        pairs = st.lists(st.tuples(keys, children), max_size=4, unique_by=lambda kv: _hk(kv[0])).map(
            lambda l: [list(p) for p in l])
        items = st.lists(children, max_size=3)
        opts = []
        for k in kinds:
            if k in ("C", "D"):
                opts.append(pairs.map(lambda p, k=k: (k, p)))
            else:
                opts.append(items.map(lambda p, k=k: (k, p)))
        return st.one_of(opts)
    return st.recursive(leaves, extend, max_leaves=max_leaves)


def _hk(k):
    # 1 / True / 1.0 collide as dict keys; keep keys distinct under dict semantics
    return ("k", k)


def containers(**kw):
    """trees whose root is a Container"""
    t = trees(**kw)
    keys = kw.get("keys", keys_any)
    return st.lists(st.tuples(keys, t), max_size=5, unique_by=lambda kv: _hk(kv[0])).map(
        lambda l: ("C", [list(p) for p in l]))


class SubStr(str):
    """keys need not be exact str objects (the library itself uses str subclasses as keys, e.g. for flag names)"""


def build(m, keycls=None):
    k = kind(m)
    if k == "C":
        c = Container()
        for key, v in m[1]:
            dict.__setitem__(c, keycls(key) if keycls is not None and isinstance(key, str) else key, build(v, keycls))
        return c
    if keycls is not None and k in ("D", "L", "LC"):
        if k == "D":
            return {key: build(v, keycls) for key, v in m[1]}
        if k == "L":
            return [build(v, keycls) for v in m[1]]
        return ListContainer(build(v, keycls) for v in m[1])
    if k == "D":
        return {key: build(v) for key, v in m[1]}
    if k == "L":
        return [build(v) for v in m[1]]
    if k == "LC":
        return ListContainer(build(v) for v in m[1])
    return m


def depth(m):
    k = kind(m)
    if k in ("C", "D"):
        return 1 + max([depth(v) for _, v in m[1]] or [0])
    if k in ("L", "LC"):
        return 1 + max([depth(v) for v in m[1]] or [0])
    return 0


def has_special_key(m):
    k = kind(m)
    if k in ("C", "D"):
        return any(is_private(key) or key in SHADOW or not isinstance(key, str) or has_special_key(v)
                   for key, v in m[1])
    if k in ("L", "LC"):
        return any(has_special_key(v) for v in m[1])
    return False


def meq(a, b):
    """Model equality: what == must answer."""
    ka, kb = kind(a), kind(b)
    if ka == "C" or kb == "C":
        if ka not in ("C", "D") or kb not in ("C", "D"):
            return False
        da = [(k, v) for k, v in a[1] if not is_private(k)]
        db = [(k, v) for k, v in b[1] if not is_private(k)]
        if len(da) != len(db):
            return False
        for k, v in da:
            match = [v2 for k2, v2 in db if k2 == k and type(k2) is type(k)]
            if len(match) != 1 or not meq(v, match[0]):
                return False
        return True
    if ka == "D" and kb == "D":
        if len(a[1]) != len(b[1]):
            return False
        for k, v in a[1]:
            match = [v2 for k2, v2 in b[1] if k2 == k and type(k2) is type(k)]
            if len(match) != 1 or not meq(v, match[0]):
                return False
        return True
    if ka in ("L", "LC") and kb in ("L", "LC"):
        return len(a[1]) == len(b[1]) and all(meq(x, y) for x, y in zip(a[1], b[1]))
    if ka != "S" or kb != "S":
        return False
    return a == b


def pure(m):
    """only Container / list kinds (transitivity is claimed on containers)"""
    k = kind(m)
    if k == "D":
        return False
    if k == "C":
        return all(pure(v) for _, v in m[1])
    if k in ("L", "LC"):
        return all(pure(v) for v in m[1])
    return True


@st.composite
def mutated(draw, m, depth_left=3):
    """a relative of m: equal, or different in a controlled way"""
    k = kind(m)
    action = draw(st.sampled_from(["same", "same", "permute", "leaf", "addpriv", "addpub", "drop", "swapkind",
                                   "descend", "descend", "descend"]))
    if k in ("C", "D"):
        pairs = [[key, v] for key, v in m[1]]
        if action == "permute":
            pairs = draw(st.permutations(pairs))
            return (k, [list(p) for p in pairs])
        if action == "addpriv":
            key = draw(st.sampled_from(PRIVATE))
            pairs = [p for p in pairs if p[0] != key] + [[key, draw(scalars)]]
            return (k, pairs)
        if action == "addpub":
            key = draw(st.sampled_from(PUBLIC + SHADOW))
            pairs = [p for p in pairs if p[0] != key] + [[key, draw(scalars)]]
            return (k, pairs)
        if action == "drop" and pairs:
            i = draw(st.integers(0, len(pairs) - 1))
            return (k, pairs[:i] + pairs[i + 1:])
        if action == "swapkind":
            return ("D" if k == "C" else "C", pairs)
        if action in ("descend", "leaf") and pairs and depth_left > 0:
            i = draw(st.integers(0, len(pairs) - 1))
            pairs[i] = [pairs[i][0], draw(mutated(pairs[i][1], depth_left - 1))]
            return (k, pairs)
        return (k, pairs)
    if k in ("L", "LC"):
        items = list(m[1])
        if action == "swapkind":
            return ("L" if k == "LC" else "LC", items)
        if action == "drop" and items:
            i = draw(st.integers(0, len(items) - 1))
            return (k, items[:i] + items[i + 1:])
        if action in ("descend", "leaf", "permute") and items and depth_left > 0:
            i = draw(st.integers(0, len(items) - 1))
            items[i] = draw(mutated(items[i], depth_left - 1))
            return (k, items)
        return (k, items)
    if action in ("leaf", "descend"):
        return draw(scalars)
    return m


@st.composite
def triples(draw):
    a = draw(containers())
    b = draw(mutated(a))
    c = draw(mutated(b))
    return [a, b, c]


def safe_eq(x, y):
    o = call(lambda: x == y)
    return o


def plain(m):
    """public projection as plain python objects (dict congruence law)"""
    k = kind(m)
    if k in ("C", "D"):
        return {key: plain(v) for key, v in m[1] if not (is_private(key))}
    if k in ("L", "LC"):
        return [plain(v) for v in m[1]]
    return m


def all_containers(m):
    """True if every dict-like node is a Container (then private keys are ignored at every level)"""
    k = kind(m)
    if k == "D":
        return False
    if k == "C":
        return all(all_containers(v) for _, v in m[1])
    if k in ("L", "LC"):
        return all(all_containers(v) for v in m[1])
    return True


def eq_oracle(ctx):
    def oracle(case):
        a, b, c = case
        A, B, C = build(a), build(b), build(c)
        nontrivial = depth(a) >= 2 or has_special_key(a) or has_special_key(b)
        labels = ["eq/pair_equal" if meq(a, b) else "eq/pair_differs"]
        ctx.record(case, nontrivial, labels)
        for (x, X, nx), (y, Y, ny) in [((a, A, "a"), (b, B, "b")), ((b, B, "b"), (c, C, "c")), ((a, A, "a"), (c, C, "c")),
                                       ((b, B, "b"), (a, A, "a")), ((c, C, "c"), (b, B, "b"))]:
            want = meq(x, y)
            got = safe_eq(X, Y)
            if not got.ok or bool(got.value) != want:
                return Failure("C20/eq/model", "%s == %s is %r, model says %r" % (short(X), short(Y), got, want))
            ne = call(lambda: X != Y)
            if not ne.ok or bool(ne.value) != (not want):
                return Failure("C20/ne/negation", "%s != %s is %r but == is %r" % (short(X), short(Y), ne, want))
        # the same relation when the keys are instances of a str subclass, on either or both sides
        for (x, X), (y, Y) in (((a, A), (b, B)), ((b, B), (c, C)), ((a, A), (c, C))):
            want = meq(x, y)
            X2, Y2 = build(x, SubStr), build(y, SubStr)
            for l, r_, tag in ((X2, Y2, "both"), (X2, Y, "left"), (X, Y2, "right")):
                got = safe_eq(l, r_)
                ne = call(lambda: l != r_)
                if not got.ok or bool(got.value) != want or not ne.ok or bool(ne.value) != (not want):
                    return Failure("C20/eq/str-subclass-keys", "with str-subclass keys (%s): %s == %s is %r / != is %r, model says %r" % (tag, short(l), short(r_), got, ne, want))
        for x, X in ((a, A), (b, B), (c, C)):
            r = safe_eq(X, X)
            r2 = safe_eq(X, build(x))
            if not (r.ok and r.value is True and r2.ok and r2.value):
                return Failure("C20/eq/reflexive", "%s not equal to itself / a rebuilt copy: %r %r" % (short(X), r, r2))
            # ListContainer equals the list of its elements; Container equals dict on public entries
            if kind(x) == "C" and all(kind(v) == "S" for _, v in x[1]):
                pub = {k: v for k, v in x[1] if not is_private(k)}
                r3 = safe_eq(X, pub)
                r4 = safe_eq(pub, X)
                if not (r3.ok and r3.value and r4.ok and r4.value):
                    return Failure("C20/eq/dict-congruence", "%s vs its public dict %s: %r %r" % (short(X), short(pub), r3, r4))
        # transitivity on pure container trees
        if pure(a) and pure(b) and pure(c):
            ab, bc, ac = safe_eq(A, B), safe_eq(B, C), safe_eq(A, C)
            if ab.ok and bc.ok and ab.value and bc.value and not (ac.ok and ac.value):
                return Failure("C20/eq/transitive", "a==b and b==c but not a==c: %s %s %s" % (short(A), short(B), short(C)))
        # congruence with plain-dict equality on the public entries (all-Container trees)
        if all_containers(a) and all_containers(b):
            if (plain(a) == plain(b)) != meq(a, b):
                raise AssertionError("model inconsistency")  # harness self-check
            got = safe_eq(A, B)
            if not got.ok or bool(got.value) != (plain(a) == plain(b)):
                return Failure("C20/eq/dict-congruence", "%s == %s is %r, public dicts compare %r" % (
                    short(A), short(B), got, plain(a) == plain(b)))
        return None
    return oracle


def campaign_eq(ctx):
    ctx.search(triples(), eq_oracle(ctx), ctx.budget(1500, 60000))
campaign_eq.shards = (1, 8)


# ---------------------------------------------------------------------------------------------
# ListContainer == list of its elements
# ---------------------------------------------------------------------------------------------
def lc_oracle(ctx):
    def oracle(case):
        items, other = case
        real = [build(v) for v in items]
        lc = ListContainer(real)
        ctx.record(case, len(items) >= 2 or any(kind(v) != "S" for v in items), ["listcontainer"])
        r1, r2 = safe_eq(lc, list(real)), safe_eq(list(real), lc)
        if not (r1.ok and r1.value and r2.ok and r2.value):
            return Failure("C20/listcontainer/eq-list", "ListContainer(%s) == list: %r / %r" % (short(real), r1, r2))
        if list(iter(lc)) != real or len(lc) != len(real):
            return Failure("C20/listcontainer/iter", "iteration differs: %s" % short(lc))
        o = [build(v) for v in other]
        want = len(items) == len(other) and all(meq(x, y) for x, y in zip(items, other))
        r3 = safe_eq(lc, o)
        r4 = safe_eq(ListContainer(o), lc)
        if not (r3.ok and bool(r3.value) == want and r4.ok and bool(r4.value) == want):
            return Failure("C20/listcontainer/eq-model", "%s == %s: %r / %r, model %r" % (short(lc), short(o), r3, r4, want))
        return None
    return oracle


@st.composite
def lc_cases(draw):
    items = draw(st.lists(trees(max_leaves=5), max_size=4))
    other = draw(st.one_of(st.just(items), mutated(("L", items)).map(lambda m: m[1] if kind(m) in ("L", "LC") else [])))
    return [items, other]


def campaign_listcontainer(ctx):
    ctx.search(lc_cases(), lc_oracle(ctx), ctx.budget(400, 20000))
campaign_listcontainer.shards = (1, 2)


# ---------------------------------------------------------------------------------------------
# copies: copy / .copy() / deepcopy / pickle are equal, present the same entries, are independent
# ---------------------------------------------------------------------------------------------
def ident_key(k):
    return isinstance(k, str) and k.isidentifier() and not (k.startswith("__") and k.endswith("__"))


def present_same(real, m, where):
    """`real` must present exactly the model's entries, in order, through every access path."""
    k = kind(m)
    if k == "C":
        if type(real) is not Container:
            return "%s: expected Container, got %s" % (where, type(real).__name__)
        mk = [key for key, _ in m[1]]
        views = dict(
            iter=call(lambda: list(iter(real))),
            keys=call(lambda: list(Container.keys(real))),
            items=call(lambda: [p[0] for p in Container.items(real)]),
            dictkeys=call(lambda: list(dict.keys(real))),
        )
        for name, o in views.items():
            if not o.ok or o.value != mk or [type(x) for x in o.value] != [type(x) for x in mk]:
                return "%s: %s presents %r, expected keys %r" % (where, name, o, mk)
        if call(lambda: len(real)).value != len(mk):
            return "%s: len %r != %d" % (where, call(lambda: len(real)), len(mk))
        vals = call(lambda: list(Container.values(real)))
        if not vals.ok or len(vals.value) != len(mk):
            return "%s: values() %r" % (where, vals)
        for i, (key, v) in enumerate(m[1]):
            o = call(lambda: real[key])
            if not o.ok:
                return "%s: [%r] raised %r" % (where, key, o)
            if o.value is not vals.value[i]:
                return "%s: values()[%d] is not [%r]" % (where, i, key)
            c = call(lambda: key in real)
            if not (c.ok and c.value is True):
                return "%s: %r in container -> %r" % (where, key, c)
            if ident_key(key):
                a = call(lambda: getattr(real, key))
                if not a.ok or a.value is not o.value:
                    return "%s: attribute .%s -> %r but [%r] -> %s" % (where, key, a, key, short(o.value))
            r = present_same(o.value, v, "%s[%r]" % (where, key))
            if r:
                return r
        for absent in ("zz_absent", "_zz", 424242):
            if absent not in mk:
                c = call(lambda: absent in real)
                if not (c.ok and c.value is False):
                    return "%s: absent key %r in container -> %r" % (where, absent, c)
        return None
    if k == "D":
        if type(real) is not dict or list(real.keys()) != [key for key, _ in m[1]]:
            return "%s: expected dict with keys %r, got %s" % (where, [key for key, _ in m[1]], short(real))
        for key, v in m[1]:
            r = present_same(real[key], v, "%s[%r]" % (where, key))
            if r:
                return r
        return None
    if k in ("L", "LC"):
        want = ListContainer if k == "LC" else list
        if type(real) is not want or len(real) != len(m[1]):
            return "%s: expected %s of %d, got %s" % (where, want.__name__, len(m[1]), short(real))
        for i, v in enumerate(m[1]):
            r = present_same(list.__getitem__(real, i), v, "%s[%d]" % (where, i))
            if r:
                return r
        return None
    if type(real) is not type(m) or real != m:
        return "%s: expected %r got %s" % (where, m, short(real))
    return None


def mutable_nodes(real, m, path=()):
    """yield (path, realnode, modelnode) for every mutable node"""
    k = kind(m)
    if k in ("C", "D"):
        yield path, real, m
        for key, v in m[1]:
            yield from mutable_nodes(dict.__getitem__(real, key), v, path + (key,))
    elif k in ("L", "LC"):
        yield path, real, m
        for i, v in enumerate(m[1]):
            yield from mutable_nodes(list.__getitem__(real, i), v, path + (i,))


COPIERS = {
    "copy.copy": (lambda c: copy.copy(c), "shallow"),
    "method copy": (lambda c: Container.copy(c), "shallow"),
    "deepcopy": (lambda c: copy.deepcopy(c), "deep"),
    "pickle0": (lambda c: pickle.loads(pickle.dumps(c, 0)), "deep"),
    "pickle2": (lambda c: pickle.loads(pickle.dumps(c, 2)), "deep"),
    "pickle4": (lambda c: pickle.loads(pickle.dumps(c, 4)), "deep"),
    "pickle5": (lambda c: pickle.loads(pickle.dumps(c, 5)), "deep"),
}


def check_copy(m, how):
    """direct (non-stateful) check of one copier on one tree; returns Failure or None"""
    fn, depthkind = COPIERS[how]
    orig = build(m)
    o = call(fn, orig)
    tag = "pickle" if how.startswith("pickle") else how.replace(" ", "-").replace(".", "-")
    if not o.ok:
        return Failure("C20/%s/raises" % tag, "%s(%s) raised %r" % (how, short(orig), o))
    cp = o.value
    if cp is orig:
        return Failure("C20/%s/same-object" % tag, "%s returned the original object" % how)
    r = present_same(cp, m, how + " result")
    if r:
        return Failure("C20/%s/entries" % tag, r)
    e1, e2 = safe_eq(cp, orig), safe_eq(orig, cp)
    if not (e1.ok and e1.value and e2.ok and e2.value):
        return Failure("C20/%s/not-equal" % tag, "%s result %s != original %s" % (how, short(cp), short(orig)))
    # independence
    if depthkind == "deep":
        ids = {id(n) for _, n, _ in mutable_nodes(orig, m)}
        for path, n, _ in mutable_nodes(cp, m):
            if id(n) in ids:
                return Failure("C20/%s/shares-nested" % tag, "%s shares the mutable object at path %r with the original" % (how, path))
    # attribute assignment on the copy lands in the mapping and not in the original
    a = call(lambda: setattr(cp, "zz_new", 5))
    if not a.ok or call(lambda: cp["zz_new"]).value != 5 or "zz_new" not in list(dict.keys(cp)):
        return Failure("C20/%s/attr-set" % tag, "setting attribute on the %s result does not create an entry: %r, keys %r" % (
            how, a, list(dict.keys(cp))))
    if "zz_new" in dict.keys(orig):
        return Failure("C20/%s/top-level-shared" % tag, "mutating the %s result changed the original" % how)
    dict.__delitem__(cp, "zz_new")
    return None


def copies_oracle(ctx):
    def oracle(case):
        m, how = case
        ctx.record(case, depth(m) >= 2 or has_special_key(m), ["copy/" + how])
        return check_copy(m, how)
    return oracle


def campaign_copies(ctx):
    strat = st.tuples(containers(), st.sampled_from(sorted(COPIERS))).map(list)
    ctx.search(strat, copies_oracle(ctx), ctx.budget(1200, 40000))
campaign_copies.shards = (1, 4)


# ---------------------------------------------------------------------------------------------
# histories: stateful machine with aliasing-aware model
# ---------------------------------------------------------------------------------------------
class MNode:
    """mutable model node mirroring one real object (shared references mirror real aliasing)"""
    __slots__ = ("k", "pairs", "items")

    def __init__(self, k, pairs=None, items=None):
        self.k, self.pairs, self.items = k, pairs, items


def to_nodes(m):
    """model data -> (real object, MNode/scalar) built in parallel"""
    k = kind(m)
    if k in ("C", "D"):
        real = Container() if k == "C" else {}
        node = MNode(k, pairs=[])
        for key, v in m[1]:
            r, n = to_nodes(v)
            dict.__setitem__(real, key, r)
            node.pairs.append([key, n])
        return real, node
    if k in ("L", "LC"):
        rs, ns = [], []
        for v in m[1]:
            r, n = to_nodes(v)
            rs.append(r)
            ns.append(n)
        return (ListContainer(rs) if k == "LC" else rs), MNode(k, items=ns)
    return m, m


def node_data(n):
    if isinstance(n, MNode):
        if n.k in ("C", "D"):
            return (n.k, [[k, node_data(v)] for k, v in n.pairs])
        return (n.k, [node_data(v) for v in n.items])
    return n


def deep_node(n):
    if isinstance(n, MNode):
        if n.k in ("C", "D"):
            return MNode(n.k, pairs=[[k, deep_node(v)] for k, v in n.pairs])
        return MNode(n.k, items=[deep_node(v) for v in n.items])
    return n


def m_set(node, key, val):
    for p in node.pairs:
        if p[0] == key and type(p[0]) is type(key):
            p[1] = val
            return
    node.pairs.append([key, val])


def m_del(node, key):
    for i, p in enumerate(node.pairs):
        if p[0] == key and type(p[0]) is type(key):
            del node.pairs[i]
            return True
    return False


def m_has(node, key):
    return any(p[0] == key and type(p[0]) is type(key) for p in node.pairs)


class ContainerMachine(RuleBasedStateMachine):
    """history of set/delete/update/copy operations; invariant: every tracked object presents its model"""
    ctx = None

    def __init__(self):
        super().__init__()
        self.real = Container()
        self.model = MNode("C", pairs=[])
        self.tracked = []          # (real, model, how) for earlier objects that must stay as they were
        self.steps = []
        self.copied = False
        self.mutated_after_copy = False
        self.failure = None

    def fail(self, bucket, detail):
        f = Failure(bucket, detail + " | history=" + short(self.steps, 600))
        self.failure = f
        raise PropertyViolation(f)

    def lib(self, bucket, fn):
        o = call(fn)
        if not o.ok:
            self.fail(bucket, "raised %r" % o)
        return o.value

    def _mut(self):
        if self.copied:
            self.mutated_after_copy = True

    @rule(key=keys_any, val=trees(max_leaves=4))
    def setitem(self, key, val):
        self.steps.append(["setitem", jenc(key), jenc(val)])
        r, n = to_nodes(val)
        self.lib("C20/history/setitem", lambda: self.real.__setitem__(key, r))
        m_set(self.model, key, n)
        self._mut()

    @rule(key=keys_str.filter(ident_key), val=trees(max_leaves=4))
    def setattr_(self, key, val):
        self.steps.append(["setattr", key, jenc(val)])
        r, n = to_nodes(val)
        self.lib("C20/history/setattr", lambda: setattr(self.real, key, r))
        m_set(self.model, key, n)
        self._mut()

    @precondition(lambda self: self.model.pairs)
    @rule(data=st.data())
    def delitem(self, data):
        key = data.draw(st.sampled_from([p[0] for p in self.model.pairs]))
        self.steps.append(["delitem", jenc(key)])
        self.lib("C20/history/delitem", lambda: self.real.__delitem__(key))
        m_del(self.model, key)
        self._mut()

    @precondition(lambda self: any(ident_key(p[0]) for p in self.model.pairs))
    @rule(data=st.data())
    def delattr_(self, data):
        key = data.draw(st.sampled_from([p[0] for p in self.model.pairs if ident_key(p[0])]))
        self.steps.append(["delattr", key])
        self.lib("C20/history/delattr", lambda: delattr(self.real, key))
        m_del(self.model, key)
        self._mut()

    @rule(pairs=st.lists(st.tuples(keys_any, trees(max_leaves=3)), max_size=3, unique_by=lambda kv: _hk(kv[0])),
          form=st.sampled_from(["dict", "pairs", "container"]))
    def update(self, pairs, form):
        self.steps.append(["update", form, jenc([list(p) for p in pairs])])
        built = [(k,) + to_nodes(v) for k, v in pairs]
        if form == "dict":
            arg = {k: r for k, r, _ in built}
        elif form == "container":
            arg = Container()
            for k, r, _ in built:
                dict.__setitem__(arg, k, r)
        else:
            arg = [(k, r) for k, r, _ in built]
        self.lib("C20/history/update", lambda: Container.update(self.real, arg))
        for k, _, n in built:
            m_set(self.model, k, n)
        self._mut()

    @rule(pairs=st.lists(st.tuples(st.sampled_from(PUBLIC + PRIVATE + SHADOW).filter(lambda k: k != "self"), scalars),
                         max_size=3, unique_by=lambda kv: kv[0]))
    def update_kwargs(self, pairs):
        self.steps.append(["update_kw", jenc([list(p) for p in pairs])])
        self.lib("C20/history/update", lambda: Container.update(self.real, **dict(pairs)))
        for k, v in pairs:
            m_set(self.model, k, v)
        self._mut()

    @rule(key=keys_any, default=scalars)
    def pop(self, key, default):
        self.steps.append(["pop", jenc(key)])
        got = self.lib("C20/history/pop", lambda: Container.pop(self.real, key, default))
        if m_has(self.model, key):
            want = [p[1] for p in self.model.pairs if p[0] == key and type(p[0]) is type(key)][0]
            m_del(self.model, key)
            r = present_same(got, node_data(want), "pop result")
            if r:
                self.fail("C20/history/pop", r)
        elif got is not default:
            self.fail("C20/history/pop", "pop of absent key returned %s" % short(got))
        self._mut()

    @precondition(lambda self: self.model.pairs)
    @rule()
    def popitem(self):
        self.steps.append(["popitem"])
        k, v = self.lib("C20/history/popitem", lambda: Container.popitem(self.real))
        wk, wv = self.model.pairs.pop()
        if k != wk or present_same(v, node_data(wv), "popitem"):
            self.fail("C20/history/popitem", "popitem returned %s, expected key %r" % (short((k, v)), wk))
        self._mut()

    @rule(key=keys_any, val=scalars)
    def setdefault(self, key, val):
        self.steps.append(["setdefault", jenc(key), jenc(val)])
        self.lib("C20/history/setdefault", lambda: Container.setdefault(self.real, key, val))
        if not m_has(self.model, key):
            m_set(self.model, key, val)
        self._mut()

    @rule()
    def clear(self):
        self.steps.append(["clear"])
        self.lib("C20/history/clear", lambda: Container.clear(self.real))
        self.model.pairs = []
        self._mut()

    @rule(how=st.sampled_from(sorted(COPIERS)))
    def replace_by_copy(self, how):
        self.steps.append(["copy", how])
        fn, depthkind = COPIERS[how]
        tag = "pickle" if how.startswith("pickle") else how.replace(" ", "-").replace(".", "-")
        o = call(fn, self.real)
        if not o.ok:
            self.fail("C20/%s/raises" % tag, "%s raised %r" % (how, o))
        if o.value is self.real:
            self.fail("C20/%s/same-object" % tag, "%s returned the original object" % how)
        e = safe_eq(o.value, self.real)
        if not (e.ok and e.value):
            self.fail("C20/%s/not-equal" % tag, "%s result != original: %r" % (how, e))
        self.tracked.append((self.real, self.model, how))
        if len(self.tracked) > 4:
            self.tracked.pop(0)
        self.real = o.value
        if depthkind == "deep":
            self.model = deep_node(self.model)
        else:
            self.model = MNode("C", pairs=[[k, v] for k, v in self.model.pairs])
        self.copied = True
        self.last_copy = tag

    @precondition(lambda self: any(True for _ in mutable_nodes(self.real, node_data(self.model)) if _[0]))
    @rule(data=st.data(), key=st.sampled_from(PUBLIC + PRIVATE), val=scalars)
    def mutate_nested(self, data, key, val):
        # walk model nodes (not data) so that shared references are mutated once, like the real objects
        found = []

        def walk(real, node, path):
            if isinstance(node, MNode):
                if path:
                    found.append((path, real, node))
                if node.k in ("C", "D"):
                    for k, v in node.pairs:
                        walk(dict.__getitem__(real, k), v, path + (k,))
                else:
                    for i, v in enumerate(node.items):
                        walk(list.__getitem__(real, i), v, path + (i,))
        walk(self.real, self.model, ())
        if not found:
            return
        path, real, node = data.draw(st.sampled_from(found))
        self.steps.append(["mutate_nested", jenc(list(path)), key, jenc(val)])
        if node.k in ("C", "D"):
            dict.__setitem__(real, key, val)
            m_set(node, key, val)
        else:
            list.append(real, val)
            node.items.append(val)
        self._mut()

    @invariant()
    def presents_model(self):
        r = present_same(self.real, node_data(self.model), "current")
        if r:
            b = "C20/history/entries"
            if self.copied:
                b = "C20/%s/entries" % self.last_copy
            self.fail(b, r)
        for real, model, how in self.tracked:
            r = present_same(real, node_data(model), "original before %s" % how)
            if r:
                tag = "pickle" if how.startswith("pickle") else how.replace(" ", "-").replace(".", "-")
                self.fail("C20/%s/not-independent" % tag, r)

    def teardown(self):
        if self.ctx is not None and self.failure is None:
            nontrivial = self.copied and self.mutated_after_copy
            self.ctx.record(self.steps, nontrivial, ["history/steps=%d" % min(len(self.steps) // 5 * 5, 30),
                                                     "history/with_copy" if self.copied else "history/no_copy"])


def run_machine(ctx, max_examples, steps):
    """drive the rule-based machine; shrinks the whole history as one value"""
    from hypothesis import settings, HealthCheck, Phase, Verbosity
    last = {}

    class M(ContainerMachine):
        pass
    M.ctx = ctx
    orig_fail = M.fail

    def fail(self, bucket, detail):
        try:
            orig_fail(self, bucket, detail)
        except PropertyViolation as e:
            if ctx.is_known(e.failure):
                ctx.stats.known_hits[e.failure.bucket] = ctx.stats.known_hits.get(e.failure.bucket, 0) + 1
                return
            last["failure"] = e.failure
            last["steps"] = list(self.steps)
            raise
    M.fail = fail
    seedval = (ctx.seed * 1000003 + ctx.shard * 7919) % (2 ** 63)
    try:
        stateful.run_state_machine_as_test(
            hypothesis.seed(seedval)(M),
            settings=settings(max_examples=max_examples, stateful_step_count=steps, database=None, deadline=None,
                              derandomize=False, report_multiple_bugs=False, suppress_health_check=list(HealthCheck),
                              phases=[Phase.generate, Phase.shrink], print_blob=False, verbosity=Verbosity.quiet))
    except PropertyViolation:
        f = last["failure"]
        ctx.stats.violations.append(dict(bucket=f.bucket, detail=f.detail, case=jenc(last["steps"]), campaign="history"))


def campaign_history(ctx):
    run_machine(ctx, ctx.budget(250, 12000), 30 if ctx.thorough else 20)
campaign_history.shards = (2, 8)


def replay_history(steps):
    """re-run a saved history without Hypothesis"""
    m = ContainerMachine()
    try:
        for s in steps:
            op = s[0]
            from pbt.harness import jdec
            a = [jdec(x) for x in s[1:]]
            if op == "setitem":
                r, n = to_nodes(_tup(a[1]))
                m.real.__setitem__(_key(a[0]), r); m_set(m.model, _key(a[0]), n)
            elif op == "setattr":
                r, n = to_nodes(_tup(a[1]))
                setattr(m.real, a[0], r); m_set(m.model, a[0], n)
            elif op == "delitem":
                m.real.__delitem__(_key(a[0])); m_del(m.model, _key(a[0]))
            elif op == "delattr":
                delattr(m.real, a[0]); m_del(m.model, a[0])
            elif op == "update":
                pairs = [(_key(k), _tup(v)) for k, v in a[1]]
                built = [(k,) + to_nodes(v) for k, v in pairs]
                arg = {k: r for k, r, _ in built} if a[0] != "pairs" else [(k, r) for k, r, _ in built]
                if a[0] == "container":
                    arg = Container(arg)
                Container.update(m.real, arg)
                for k, _, n in built:
                    m_set(m.model, k, n)
            elif op == "update_kw":
                Container.update(m.real, **{k: v for k, v in a[0]})
                for k, v in a[0]:
                    m_set(m.model, k, v)
            elif op == "pop":
                Container.pop(m.real, _key(a[0]), None); m_del(m.model, _key(a[0]))
            elif op == "popitem":
                Container.popitem(m.real); m.model.pairs.pop()
            elif op == "setdefault":
                Container.setdefault(m.real, _key(a[0]), a[1])
                if not m_has(m.model, _key(a[0])):
                    m_set(m.model, _key(a[0]), a[1])
            elif op == "clear":
                Container.clear(m.real); m.model.pairs = []
            elif op == "copy":
                m.replace_by_copy(a[0])
            elif op == "mutate_nested":
                real, node = m.real, m.model
                for p in a[0]:
                    p = _key(p)
                    if node.k in ("C", "D"):
                        real = dict.__getitem__(real, p)
                        node = [v for k, v in node.pairs if k == p and type(k) is type(p)][0]
                    else:
                        real = list.__getitem__(real, p)
                        node = node.items[p]
                if node.k in ("C", "D"):
                    dict.__setitem__(real, a[1], a[2]); m_set(node, a[1], a[2])
                else:
                    list.append(real, a[2]); node.items.append(a[2])
            m.presents_model()
    except PropertyViolation as e:
        return e.failure
    return None


def _tup(x):
    """JSON round trip turns ("C", [...]) tuples into tagged tuples already (jenc/jdec keep tuples)"""
    return x


def _key(k):
    return k


# ---------------------------------------------------------------------------------------------
# search / search_all against an independent depth-first walk
# ---------------------------------------------------------------------------------------------
search_leaves = st.one_of(st.booleans(), st.integers(0, 300), st.sampled_from(["s", ""]), st.sampled_from([b"x"]))
# (keys that are not text - records grouped by number, say - are never matched themselves, but what is stored under them is searched)
search_keys = st.sampled_from(["a", "aa", "ab", "aba", "abb", "abc", "abca", "b", "ba", "c", "ada", "_a", "_ab", "x", 1, 7, (1, 2), b"ab"])
PATTERNS = ["a", "ab", "ab.*", "a$", "aba|abb", "b", ".*a$", "abc[ab]", "_a", "x|c", "zz", "", "a{2}", "(a|b)b"]


def walk_matches(m, rx):
    """independent depth-first walk: leaf entries (value not a Container/ListContainer) whose key
    matches from its start, in order; container-valued keys are descended, not matched"""
    out = []
    k = kind(m)
    if k == "C":
        for key, v in m[1]:
            if kind(v) in ("C", "LC"):
                out.extend(walk_matches(v, rx))
            else:
                if isinstance(key, str) and rx.match(key):
                    out.append(v)
    elif k == "LC":
        for v in m[1]:
            if kind(v) in ("C", "LC"):
                out.extend(walk_matches(v, rx))
    return out


def search_oracle(ctx):
    def oracle(case):
        m, pat = case
        real = build(m)
        rx = re.compile(pat)
        want = walk_matches(m, rx)
        ctx.record(case, depth(m) >= 2 and len(want) >= 1, ["search/matches=%d" % min(len(want), 3)])
        got_all = call(lambda: type(real).search_all(real, pat))
        if not got_all.ok or present_same(got_all.value, ("L", want), "search_all"):
            return Failure("C20/search_all/walk", "search_all(%r) on %s -> %r, expected %s" % (pat, short(real), got_all, short(want)))
        got = call(lambda: type(real).search(real, pat))
        exp = want[0] if want else None
        if not got.ok or present_same(got.value, exp, "search"):
            return Failure("C20/search/walk", "search(%r) on %s -> %r, expected %s" % (pat, short(real), got, short(exp)))
        return None
    return oracle


def campaign_search(ctx):
    t = trees(keys=search_keys, leaves=search_leaves, kinds=("C", "C", "LC", "L", "D"), max_leaves=14)
    roots = st.one_of(
        st.lists(st.tuples(search_keys, t), max_size=5, unique_by=lambda kv: kv[0]).map(lambda l: ("C", [list(p) for p in l])),
        st.lists(t, max_size=4).map(lambda l: ("LC", l)))
    ctx.search(st.tuples(roots, st.sampled_from(PATTERNS)).map(list), search_oracle(ctx), ctx.budget(1000, 40000))
campaign_search.shards = (1, 4)


# ---------------------------------------------------------------------------------------------
# hexundump inverts hexdump
# ---------------------------------------------------------------------------------------------
def hex_oracle(ctx):
    def oracle(case):
        data, n = case
        ctx.record(case, len(data) > n or (len(data) % n) != 0, ["hex/linesize=%d" % (n if n <= 4 else (16 if n == 16 else 64))])
        d = call(hexdump, data, n)
        if not d.ok:
            return Failure("C20/hexdump/raises", "hexdump(%s, %d) raised %r" % (short(data), n, d))
        u = call(hexundump, d.value, n)
        if not u.ok or u.value != data:
            return Failure("C20/hexundump/inverse", "hexundump(hexdump(%s, %d)) -> %s" % (short(data, 80), n, short(u, 80)))
        return None
    return oracle


def campaign_hex(ctx):
    # every line size 1..64 with lengths around multiples of it (enumerated), then random
    orc = hex_oracle(ctx)
    for n in range(1, 65):
        for ln in sorted({0, 1, n - 1, n, n + 1, 2 * n, 2 * n + 1, 3 * n - 1}):
            if ln < 0:
                continue
            for fill in (0x20, 0x41, 0x00, 0xff, 0x0a):
                data = bytes((fill + i) & 0xff if fill == 0x41 else fill for i in range(ln))
                ctx.check_case([data, n], orc)
    ctx.exhaustive("hex: line sizes 1..64 x lengths {0,1,n-1,n,n+1,2n,2n+1,3n-1} x 5 fill patterns")
    if ctx.shard == 0:
        big = bytes(range(256)) * 258  # around 65536 bytes the offset column switches from 4 to 8 hex digits
        for ln, n in ([(65535, 16), (65536, 16), (65537, 7), (65536 + 63, 64)] + ([(65536, 1), (70000, 33), (66000, 3)] if ctx.thorough else [])):
            ctx.check_case([big[:ln], n], orc)
        ctx.exhaustive("hex: lengths 65535/65536/65537 (4- vs 8-digit offset column)")
    strat = st.tuples(st.binary(max_size=300), st.one_of(st.integers(1, 64), st.sampled_from([65, 100, 128, 255, 256, 257, 1000]))).map(list)
    ctx.search(strat, orc, ctx.budget(1500, 40000))
campaign_hex.shards = (1, 2)


CAMPAIGNS = {
    "eq": campaign_eq,
    "listcontainer": campaign_listcontainer,
    "copies": campaign_copies,
    "history": campaign_history,
    "search": campaign_search,
    "hex": campaign_hex,
}


def replay(campaign, case):
    class _C:  # minimal ctx
        def record(self, *a, **k):
            pass
    c = _C()
    if campaign == "eq":
        return eq_oracle(c)(case)
    if campaign == "listcontainer":
        return lc_oracle(c)(case)
    if campaign == "copies":
        return copies_oracle(c)(case)
    if campaign == "history":
        return replay_history(case)
    if campaign == "search":
        return search_oracle(c)(case)
    if campaign == "hex":
        return hex_oracle(c)(case)
    raise ValueError("unknown campaign %r" % campaign)
