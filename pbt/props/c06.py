"""C06 — malformed, truncated or failing input is always reported as ConstructError."""
import io

from hypothesis import strategies as st

import construct as C

from pbt import grammar as G
from pbt import refmodel as R
from pbt import values as V
from pbt.faults import CountingStream, FaultyStream, FAULT_KINDS
from pbt.mutate import byte_inputs, mutated
from pbt.harness import Failure, OpBudgetExceeded, call, cpu_limit, short

CPU_BOUND_S = 10   # CPU seconds for parsing one input of a few dozen bytes (normal: milliseconds)
from pbt.props.c03 import focus_kind
from pbt.props.c02 import lib_eq

RULE = ("(i) core-class spec trees (incl. Select/Optional/Peek/Pointer/Union/Terminated templates) x random, boundary-biased and "
        "mutated-canonical byte strings through an operation-counting stream: outcome must be a value or a ConstructError, "
        "within an operation budget; (ii) for specs without greedy/optional/look-ahead parts every strict prefix of every "
        "canonical encoding must raise exactly StreamError; (iii) for parse and build, every index k of the k-th stream "
        "operation failing (OSError/ValueError/UnsupportedOperation/short read/short write) and globally non-seekable / "
        "non-tellable streams: outcome is the fault-free result or StreamError, never a foreign exception, and never a "
        "different value/bytes for specs without failure-absorbing parts. non-trivial = (i) input gets past the first member "
        "or is rejected with a non-stream error, (ii) all, (iii) fault actually triggered")
ASSUMPTIONS = ["excluded by documentation: Compressed/Pickled/Numpy/Timestamp/Encrypted (propagate library exceptions), "
               "Restreamed regions whose bit width depends on data, partial expressions, zero-width repetition",
               "'always terminates' is decided up to a stream-operation budget proportional to input and spec size"]

FRAG = V.SEQUENTIAL - {"compressed", "bomstr"}
ABSORBING = {"grange", "select", "optional", "peek", "nullstrip", "gbytes", "gstr"}


def budget_for(spec, data):
    return min(20000, 1000 + 20 * (len(data) + 8) * max(1, len(list(G.walk(spec)))))


def classify(o):
    if o.ok:
        return "value"
    if isinstance(o.exc, C.StreamError):
        return "StreamError"
    if isinstance(o.exc, C.ConstructError):
        return "ConstructError"
    return "foreign:" + type(o.exc).__name__


# ---------------------------------------------------------------------------------------------
# (i) arbitrary bytes
# ---------------------------------------------------------------------------------------------
def parse_counted(con, data, params, spec, start=0):
    s = CountingStream(b"\x00" * start + data, budget=budget_for(spec, data))
    s.seek(start)
    s.ops = 0
    try:
        with cpu_limit(CPU_BOUND_S):
            return call(con.parse_stream, s, **params), s
    except OpBudgetExceeded:
        return None, s


def arbitrary_oracle(ctx):
    def oracle(case):
        spec, params, data = case
        con = G.realise(spec)
        o, s = parse_counted(con, data, params, spec)
        if o is None:
            ctx.record(case, True, ["arbitrary/budget-exceeded"])
            return Failure("C06/termination/%s" % focus_kind(spec), "parse(%s) used more than %d stream operations or %d CPU seconds | spec=%s" % (
                data.hex(), s.budget, CPU_BOUND_S, short(spec, 500)))
        c = classify(o)
        past_first = s.ops >= 2
        ctx.record(case, past_first or c == "ConstructError", ["arbitrary/" + c.split(":")[0]])
        if c.startswith("foreign"):
            return Failure("C06/foreign-exception/%s/%s" % (focus_kind(spec), type(o.exc).__name__),
                           "parse(%s) raised %r | spec=%s params=%s" % (data.hex(), o, short(spec, 500), params))
        return None
    return oracle


@st.composite
def arbitrary_cases(draw):
    if draw(st.integers(0, 24)) == 0:
        # alignment and padding sizes taken from the context, at the values where the arithmetic degenerates (modulus 0 and 1,
        # length 0): a refusal must be a PaddingError, not an escaped ZeroDivisionError
        k = draw(st.integers(0, 3))
        ref = ["this", ["_params", "k"], draw(st.sampled_from(["attr", "item"]))]
        inner = draw(st.sampled_from([["int", 1, False, "b", "alias"], ["int", 2, False, "l", "alias"], ["varint"], ["bytes", 0]]))
        spec = draw(st.sampled_from([["aligned", ref, inner, b"\x00"], ["struct", [["a", ["int", 1, False, "b", "alias"]], ["b", ["aligned", ref, inner, b"\x00"]]]],
                                     ["padded", ref, inner, b"\x00"], ["fixedsized", ref, inner]]))
        return [spec, {"k": k}, draw(st.binary(max_size=8))]
    spec, params, value = draw(V.cases(frag=FRAG, depth=3))
    try:
        canonical = R.ref_build(spec, value, params)
    except (R.Reject, R.ForeignError):
        canonical = None
    data = draw(byte_inputs(canonical))
    if draw(st.integers(0, 5)) == 0:
        data = draw(st.sampled_from([b"\xff" * 12, b"\xff\xff\xff\xff\xff\xff\xff\xff\x7f" + data, b"\x80" * 9 + b"\x01" + data, b"\x7f\xff\xff\xff" + data]))
    return [spec, params, data]


def campaign_arbitrary(ctx):
    ctx.search(arbitrary_cases(), arbitrary_oracle(ctx), ctx.budget(30000, 600000))
campaign_arbitrary.shards = (6, 16)


# look-ahead / alternatives templates (not in the shared grammar because they seek)
@st.composite
def lookahead_cases(draw):
    g = V.GenCtx(FRAG - {"gbytes", "gstr", "grange", "optional", "nullstrip", "xor", "rol", "terminated"}, 2, False)
    def sub():
        return V.gen_spec(draw, g.child(tail=False))
    members = []
    n = draw(st.integers(1, 4))
    for i in range(n):
        o = draw(st.sampled_from(["peek", "pointer", "union", "select", "optional", "plain", "rawcopy", "grange-tail", "terminated", "lenpointer", "mapping-composite"]))
        name = "m%d" % i
        if o == "mapping-composite":
            # Mapping "maps objects to other objects": whatever the subcon parses into that the table does not hold - a list or a
            # Container cannot even be looked up - is a MappingError
            b1 = ["int", 1, False, "b", "alias"]
            comp = draw(st.sampled_from([["array", 2, b1], ["struct", [["a", b1]]], ["seq", [[None, b1], [None, b1]]], ["flagsenum", b1, [["r", 1], ["w", 2]], "kw"],
                                         ["rawcopy", b1], ["grange", b1], b1]))
            members.append([name, ["mapping", comp, [["x", 1], ["y", b"k"], ["z", "t"]]]])
        elif o == "peek":
            members.append([name, ["peek", sub()]])
        elif o == "pointer":
            members.append([name, ["pointer", draw(st.integers(-6, 12)), sub()]])
        elif o == "lenpointer":
            members.append([name + "o", ["int", 1, draw(st.booleans()), "b", "alias"]])
            members.append([name, ["pointer", ["this", [name + "o"], "attr"], sub()]])
        elif o == "union":
            pf = draw(st.sampled_from([None, 0, "ua"]))
            members.append([name, ["union", pf, [["ua", sub()], ["ub", sub()]]]])
        elif o == "select":
            members.append([name, ["select", [sub(), sub(), sub()][:draw(st.integers(1, 3))]]])
        elif o == "optional":
            members.append([name, ["optional", sub()]])
        elif o == "rawcopy":
            members.append([name, ["rawcopy", sub()]])
        elif o == "grange-tail" and i == n - 1:
            members.append([name, ["grange", V.gen_element(draw, g)]])
        elif o == "terminated" and i == n - 1:
            members.append([None, ["terminated"]])
        else:
            members.append([name, sub()])
    spec = ["struct", members]
    data = draw(st.one_of(st.binary(max_size=20), st.builds(lambda b, k: bytes([b]) * k, st.sampled_from([0, 1, 2, 0xff, 0x80]), st.integers(0, 20))))
    return [spec, {}, data]


def campaign_lookahead(ctx):
    ctx.search(lookahead_cases(), arbitrary_oracle(ctx), ctx.budget(6000, 200000))
campaign_lookahead.shards = (2, 8)


# ---------------------------------------------------------------------------------------------
# (ii) truncation
# ---------------------------------------------------------------------------------------------
NO_TRUNC = {"select", "optional", "grange", "gbytes", "gstr", "nullstrip", "xor", "rol", "compressed", "terminated", "peek"}


def truncation_oracle(ctx):
    def oracle(case):
        spec, params, value = case
        if G.kinds(spec) & NO_TRUNC or G.greedy(spec):
            ctx.tally("truncation/skipped-greedy")
            return None
        con = G.realise(spec)
        b = call(con.build, value, **params)
        if not b.ok:
            ctx.tally("truncation/unbuildable")
            return None
        full, _s = parse_counted(con, b.value, params, spec)
        if full is None or not full.ok:
            ctx.tally("truncation/canonical-rejected")
            return None
        for cut in range(len(b.value)):
            data = b.value[:cut]
            ctx.record([spec, params, data], True, ["truncation/prefix"])
            o, s = parse_counted(con, data, params, spec)
            if o is None:
                return Failure("C06/termination/%s" % focus_kind(spec), "parse(%s) used more than %d stream operations | spec=%s" % (
                    data.hex(), s.budget, short(spec, 500)))
            if o.ok:
                return Failure("C06/truncation-accepted/%s" % focus_kind(spec), "prefix %s (%d of %d bytes) of the canonical encoding %s parses to %s | spec=%s params=%s" % (
                    data.hex(), cut, len(b.value), b.value.hex(), short(o.value), short(spec, 500), params))
            if type(o.exc) is not C.StreamError:
                return Failure("C06/truncation-wrong-exception/%s/%s" % (focus_kind(spec), type(o.exc).__name__),
                               "prefix %s (%d of %d bytes) of %s raised %r instead of StreamError | spec=%s params=%s" % (
                                   data.hex(), cut, len(b.value), b.value.hex(), o, short(spec, 500), params))
        return None
    return oracle


def campaign_truncation(ctx):
    ctx.search(V.cases(frag=FRAG, depth=3, tail=False).map(list), truncation_oracle(ctx), ctx.budget(4000, 160000))
campaign_truncation.shards = (2, 16)


# ---------------------------------------------------------------------------------------------
# (iii) stream faults
# ---------------------------------------------------------------------------------------------
STREAMING_BITS = [
    ["bitwise", ["struct", [["n", ["bits", 8, False, False]], ["d", ["array", ["this", ["n"], "attr"], ["bits", 8, False, False]]]]]],
    ["bitsswapped", ["struct", [["n", ["int", 1, False, "b", "alias"]], ["d", ["bytes", ["this", ["n"], "attr"]]]]]],
    ["bitwise", ["struct", [["n", ["nibble"]], ["m", ["nibble"]], ["d", ["array", ["this", ["n"], "attr"], ["bits", 16, True, True]]]]]],
]


SPECIAL = STREAMING_BITS + [
    ["struct", [["a", ["int", 2, False, "b", "alias"]], [None, ["terminated"]]]],
    ["struct", [["a", ["grange", ["int", 2, False, "l", "alias"]]], [None, ["terminated"]]]],
    ["struct", [["a", ["nullterm", ["gbytes"], b"\x00\x00", False, True, True]], ["b", ["cstr", "utf_16_le"]]]],
    ["struct", [["a", ["prefixed", ["varint"], ["grange", ["int", 1, False, "b", "alias"]], False]], ["b", ["padded", 4, ["int", 2, False, "b", "alias"], b"\x00"]],
                ["c", ["aligned", 4, ["int", 1, False, "b", "alias"], b"\x00"]]]],
    ["struct", [["a", ["select", [["const", b"AB", None], ["const", b"CD", None]]]], ["b", ["optional", ["int", 4, False, "b", "alias"]]]]],
]


# position-reporting members (Tell, RawCopy offsets, absolute Pointer/Seek) inside delimited regions that start behind a header:
# their results are positions of the OUTER stream, so a fault while the region is entered cannot be papered over
_B1 = ["int", 1, False, "b", "alias"]
_I2 = ["int", 2, False, "b", "alias"]
_REGION_BODY = ["struct", [["p", ["tell"]], ["x", _I2], ["q", ["tell"]], ["y", ["rawcopy", _B1]], ["z", ["pointer", 2, _B1]]]]
POSITIONAL = [
    (["struct", [["h", _I2], ["r", ["fixedsized", 4, _REGION_BODY]], ["t", _B1]]], bytes.fromhex("aabb1122334455")),
    (["struct", [["h", _B1], ["r", ["prefixed", _B1, _REGION_BODY, False]], ["t", _B1]]], bytes.fromhex("aa041122334455")),
    (["struct", [["h", _B1], ["r", ["fixedsized", 3, ["rawcopy", ["struct", [["a", _B1], ["b", _I2]]]]]], ["t", ["tell"]]]], bytes.fromhex("aa11223344")),
    (["struct", [["h", _I2], ["r", ["prefixed", ["varint"], ["struct", [[None, ["seek", 3, 0]], ["v", _B1], ["w", ["tell"]]]], False]]]], bytes.fromhex("aabb03112233")),
    (["struct", [["h", _B1], ["r", ["nullterm", ["struct", [["p", ["tell"]], ["x", _B1]]], b"\x00", False, True, True]], ["t", _B1]]], bytes.fromhex("aa110055")),
]


def same_outcome(a, b):
    if a.ok != b.ok:
        return False
    if a.ok:
        return lib_eq(a.value, b.value)
    return type(a.exc) is type(b.exc)


def faults_parse_oracle(ctx):
    def oracle(case):
        spec, params, data = case
        con = G.realise(spec)
        base_stream = FaultyStream(data)
        try:
            with cpu_limit(CPU_BOUND_S):
                base = call(con.parse_stream, base_stream, **params)
        except OpBudgetExceeded:
            return Failure("C06/termination/%s" % focus_kind(spec), "parse_stream(%s) used more than 20000 stream operations | spec=%s" % (data.hex(), short(spec, 400)))
        nops = base_stream.ops
        absorbing = bool(G.kinds(spec) & ABSORBING) or any(s[0] == "nullterm" and not s[5] for s in G.walk(spec))
        plans = [(k, kind, ()) for k in range(nops) for kind in FAULT_KINDS] + [(None, None, ("seek",)), (None, None, ("tell",)), (None, None, ("seek", "tell"))]
        for k, kind, deny in plans:
            s = FaultyStream(data, k, kind, deny)
            try:
                with cpu_limit(CPU_BOUND_S):
                    o = call(con.parse_stream, s, **params)
            except OpBudgetExceeded:
                return Failure("C06/fault-runaway/%s" % focus_kind(spec), "parse with fault %s@%s never ends | spec=%s" % (kind or deny, k, short(spec, 400)))
            trig = s.triggered is not None
            ctx.record([spec, params, data, k, kind, list(deny)], trig, ["fault-parse/" + (kind or "deny-" + "+".join(deny)), "fault-parse/triggered" if trig else "fault-parse/not-reached"])
            c = classify(o)
            where = "parse_stream(%s) with fault %s at operation %s (%s) | spec=%s params=%s" % (data.hex(), kind or "deny " + "+".join(deny), k, s.triggered, short(spec, 500), params)
            if c.startswith("foreign"):
                return Failure("C06/fault-foreign/%s/%s" % (focus_kind(spec), type(o.exc).__name__), "%r escaped: %s" % (o, where))
            if not trig:
                if not same_outcome(o, base):
                    return Failure("C06/fault-harness/%s" % focus_kind(spec), "outcome changed although no fault triggered: %r vs %r: %s" % (o, base, where))
                continue
            if c == "StreamError":
                continue
            if absorbing:
                continue
            if not same_outcome(o, base):
                return Failure("C06/fault-silently-wrong/%s" % focus_kind(spec), "fault-free outcome %r, with fault %r: %s" % (base, o, where))
            if o.ok and s.kind == "short" and s.triggered == "read" and base.ok:
                # a short read went unnoticed and yet the same value came back: only legitimate for read-to-EOF
                pass
        return None
    return oracle


@st.composite
def fault_cases(draw, build=False):
    if not build and draw(st.integers(0, 11)) == 0:
        spec, data = draw(st.sampled_from(POSITIONAL))
        return [spec, {}, data + draw(st.binary(max_size=2))]
    if draw(st.integers(0, 5)) == 0:
        spec = draw(st.sampled_from(SPECIAL))
        params = {}
        value = V.gen_value(draw, spec, R.top_scope({}, "build"))
    else:
        spec, params, value = draw(V.cases(frag=FRAG, depth=2))
    if build:
        return [spec, params, value]
    try:
        data = R.ref_build(spec, value, params)
    except (R.Reject, R.ForeignError):
        data = draw(st.binary(max_size=12))
    if draw(st.integers(0, 3)) == 0:
        data = draw(mutated(data, max_ops=1))
    return [spec, params, data + draw(st.binary(max_size=2))]


def campaign_faults_parse(ctx):
    ctx.search(fault_cases(), faults_parse_oracle(ctx), ctx.budget(1200, 40000))
campaign_faults_parse.shards = (3, 16)


def faults_build_oracle(ctx):
    def oracle(case):
        spec, params, value = case
        con = G.realise(spec)
        base_stream = FaultyStream()
        base = call(con.build_stream, value, base_stream, **params)
        if not base.ok:
            ctx.tally("fault-build/unbuildable")
            if not isinstance(base.exc, C.ConstructError):
                try:
                    R.ref_build(spec, value, params)
                except (R.Reject, R.ForeignError):
                    return None
                return Failure("C06/build-foreign/%s/%s" % (focus_kind(spec), type(base.exc).__name__), "fault-free build raised %r | spec=%s value=%s" % (base, short(spec, 400), short(value)))
            return None
        want = base_stream.getvalue()
        nops = base_stream.ops
        plans = [(k, kind, ()) for k in range(nops) for kind in FAULT_KINDS] + [(None, None, ("seek",)), (None, None, ("tell",)), (None, None, ("seek", "tell"))]
        for k, kind, deny in plans:
            s = FaultyStream(b"", k, kind, deny)
            try:
                o = call(con.build_stream, value, s, **params)
            except OpBudgetExceeded:
                return Failure("C06/fault-runaway/%s" % focus_kind(spec), "build with fault never ends | spec=%s" % short(spec, 400))
            trig = s.triggered is not None
            ctx.record([spec, params, value, k, kind, list(deny)], trig, ["fault-build/" + (kind or "deny-" + "+".join(deny)), "fault-build/triggered" if trig else "fault-build/not-reached"])
            where = "build_stream(%s) with fault %s at operation %s (%s) | spec=%s params=%s" % (short(value), kind or "deny " + "+".join(deny), k, s.triggered, short(spec, 500), params)
            c = classify(o)
            if c.startswith("foreign"):
                return Failure("C06/fault-foreign/%s/%s" % (focus_kind(spec), type(o.exc).__name__), "%r escaped: %s" % (o, where))
            if c in ("StreamError",):
                continue
            if c == "ConstructError":
                return Failure("C06/fault-wrong-error/%s" % focus_kind(spec), "%r instead of StreamError: %s" % (o, where))
            if s.getvalue() != want:
                return Failure("C06/fault-silently-wrong/%s" % focus_kind(spec), "build reported success but the stream holds %s instead of %s: %s" % (
                    s.getvalue().hex(), want.hex(), where))
        return None
    return oracle


def campaign_faults_build(ctx):
    ctx.search(fault_cases(build=True), faults_build_oracle(ctx), ctx.budget(1200, 40000))
campaign_faults_build.shards = (3, 16)


CAMPAIGNS = {"arbitrary": campaign_arbitrary, "lookahead": campaign_lookahead, "truncation": campaign_truncation,
             "faults_parse": campaign_faults_parse, "faults_build": campaign_faults_build}


def replay(campaign, case):
    class _C:
        def record(self, *a, **k): pass
        def tally(self, *a, **k): pass
    c = _C()
    if campaign in ("arbitrary", "lookahead"):
        return arbitrary_oracle(c)(case)
    if campaign == "truncation":
        return truncation_oracle(c)(case)
    if campaign == "faults_parse":
        return faults_parse_oracle(c)(case)
    return faults_build_oracle(c)(case)
