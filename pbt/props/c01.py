"""C01 — build then parse returns the value that was built (symmetry)."""
import math

from hypothesis import strategies as st

import construct as C

from pbt import grammar as G
from pbt import refmodel as R
from pbt import values as V
from pbt.harness import Failure, call, short
from pbt.props.c03 import focus_kind

RULE = ("spec trees from the sequential fragment (numbers in every parameterisation, strings x codecs, mappings, repetition, "
        "conditionals, Rebuild/Default/Computed/Const/Check/StopIf, Prefixed/FixedSized/Padded/Aligned/NullTerminated/"
        "NullStripped, bit-level regions, ByteSwapped/BitsSwapped, ProcessXor/RotateLeft/Compressed) with lengths, counts and "
        "selectors as constants, this-expressions or keyword parameters x values of the spec's domain (boundary-biased) x "
        "keyword contexts; oracle: parse(build(v)) equals the reference normalisation of v, a model-free projection of the "
        "supplied members, and build(parse(build(v))) == build(v). non-trivial = spec has a composite and a variable-length "
        "or derived member and the value is not all zero/empty")
ASSUMPTIONS = ["value domain excludes non-injective formats (strings ending in NUL units, ambiguous Select, overlapping flags)",
               "gzip excluded from byte identity (wall clock in stdlib)", "Select alternatives are context-free (accepted xfail test_select_issue_1038)"]

DERIVED = {"prefixed", "parray", "rebuild", "nullterm", "padded", "aligned", "fixedsized", "pstr", "pascal", "cstr", "bitwise",
           "bitstruct", "const", "default", "computed", "padding", "varint", "zigzag", "grange", "runtil", "xor", "rol",
           "compressed", "alignedstruct", "nullstrip"}
COMPOSITE = {"struct", "seq", "fseq", "array", "grange", "runtil", "parray", "select", "bitstruct", "alignedstruct", "switch", "ite", "if"}


def nontrivial(spec, value):
    ks = G.kinds(spec)
    return bool(ks & COMPOSITE) and bool(ks & DERIVED) and not all_empty(value)


def all_empty(v):
    if isinstance(v, dict):
        return all(all_empty(x) for x in v.values())
    if isinstance(v, list):
        return all(all_empty(x) for x in v)
    return v in (None, 0, b"", "", False) or (isinstance(v, float) and v == 0)


def feq(a, b):
    if isinstance(a, float) and isinstance(b, float):
        if math.isnan(a) or math.isnan(b):
            return math.isnan(a) and math.isnan(b)
        return a == b and math.copysign(1, a) == math.copysign(1, b)
    return a == b and isinstance(a, bool) == isinstance(b, bool)


PASSTHRU = {"hex", "hexdump", "docs", "lazybound", "prefixed", "fixedsized", "padded", "aligned", "nullterm", "nullstrip", "bitwise",
            "bytewise", "byteswapped", "bitsswapped", "xor", "rol", "compressed"}


def projection(spec, supplied, parsed, where="value"):
    """model-free: every plain member the caller supplied must come back unchanged; returns a message or None"""
    k = spec[0]
    if k in ("int", "varint", "zigzag", "bytes", "gbytes", "pstr", "pascal", "cstr", "gstr", "flag", "float", "bits", "bit",
             "nibble", "octet", "bittail", "mapping", "oneof", "noneof", "exprsym", "expradd", "exprvalid", "bint"):
        if k == "flag":
            return None if parsed is bool(supplied) else "%s: built %r, parsed %r" % (where, supplied, parsed)
        if not feq(supplied, parsed) or (isinstance(supplied, str) and not isinstance(parsed, str)):
            return "%s: built %r, parsed %r" % (where, supplied, parsed)
        return None
    if k == "enum":
        table = dict((l, v) for l, v in G.enum_table(spec))
        inv = dict((v, l) for l, v in G.enum_table(spec))       # aliases: the last label declared for a value is reported
        want = inv[table[supplied]] if isinstance(supplied, str) and supplied in table else inv.get(supplied, supplied)
        if not (parsed == want and isinstance(parsed, type(want))):
            return "%s: built %r, parsed %r (expected %r)" % (where, supplied, parsed, want)
        return None
    if k == "fixedsized" and G.fixed_size(spec[2]) is None:
        return None  # the region is zero-filled: a shorter greedy value legitimately comes back padded
    if k in PASSTHRU:
        sub = spec[1] if k in ("hex", "hexdump", "docs", "lazybound", "nullterm", "nullstrip", "bitwise", "bytewise", "byteswapped", "bitsswapped", "compressed") else (spec[3] if k == "rol" else spec[2])
        return projection(sub, supplied, parsed, where)
    if k in ("struct", "bitstruct", "alignedstruct"):
        members = spec[2] if k == "alignedstruct" else spec[1]
        if not isinstance(parsed, dict):
            return "%s: parsed %r is not a Container" % (where, parsed)
        for name, sub in members:
            if sub[0] == "stopif":
                break
            if not name or supplied is None or name not in supplied or supplied[name] is None:
                continue
            if name not in parsed:
                return "%s.%s missing from the parsed result" % (where, name)
            r = projection(sub, supplied[name], dict.__getitem__(parsed, name), where + "." + name)
            if r:
                return r
        return None
    if k in ("array", "grange", "parray"):
        sub = spec[1] if k == "grange" else spec[2]
        if not isinstance(parsed, list) or len(parsed) != len(supplied):
            return "%s: built %d elements, parsed %r" % (where, len(supplied), parsed)
        for i, (a, b) in enumerate(zip(supplied, parsed)):
            r = projection(sub, a, b, "%s[%d]" % (where, i))
            if r:
                return r
        return None
    return None  # conditionals, derived members, Select, Sequence with StopIf...: covered by the reference normalisation


def oracle_factory(ctx):
    def oracle(case):
        spec, params, value = case
        con = G.realise(spec)
        try:
            ref_bytes = R.ref_build(spec, value, params)
            expected, _ = R.ref_parse(spec, ref_bytes, params)
            status = "ok"
        except R.Reject:
            status = "reject"
        except R.ForeignError:
            status = "foreign"
        ctx.record(case, status == "ok" and nontrivial(spec, value), ["domain/" + status] + (["kind/" + k for k in G.kinds(spec)] if status == "ok" else []))
        if status != "ok":
            return None
        fk = focus_kind(spec)
        b = call(con.build, value, **params)
        if not b.ok:
            return Failure("C01/build-rejects-valid/%s" % fk, "build(%s) raised %r | spec=%s params=%s" % (short(value), b, short(spec, 500), params))
        p = call(con.parse, b.value, **params)
        if not p.ok:
            return Failure("C01/parse-rejects-built/%s" % fk, "parse(build(%s)) raised %r; built %s | spec=%s params=%s" % (
                short(value), p, b.value.hex(), short(spec, 500), params))
        if not V.veq(p.value, expected):
            return Failure("C01/roundtrip-value/%s" % fk, "parse(build(%s)) -> %s, expected %s; built %s | spec=%s params=%s" % (
                short(value), short(p.value), short(expected), b.value.hex(), short(spec, 500), params))
        r = projection(spec, value, p.value)
        if r:
            return Failure("C01/roundtrip-projection/%s" % fk, "%s | built %s | spec=%s params=%s" % (r, b.value.hex(), short(spec, 500), params))
        b2 = call(con.build, p.value, **params)
        if not b2.ok or b2.value != b.value:
            return Failure("C01/rebuild/%s" % fk, "build(parse(build(v))) -> %r, first build %s | v=%s spec=%s params=%s" % (
                b2, b.value.hex(), short(value), short(spec, 500), params))
        return None
    return oracle


def campaign_roundtrip(ctx):
    ctx.search(V.cases(frag=V.SEQUENTIAL, depth=3 if not ctx.thorough else 4, rootrefs=True).map(list), oracle_factory(ctx), ctx.budget(24000, 400000))
campaign_roundtrip.shards = (8, 16)


def campaign_leaves(ctx):
    """single leaves and shallow wrappers get their own budget so that every primitive parameterisation is hit often"""
    ctx.search(V.cases(frag=V.SEQUENTIAL, depth=1, rootrefs=True).map(list), oracle_factory(ctx), ctx.budget(12000, 120000))
campaign_leaves.shards = (4, 8)


# ---------------------------------------------------------------------------------------------
# list adapters and tuple results (not part of the spec grammar): definitions written out, then parse(build(v)) == v
# ---------------------------------------------------------------------------------------------
def adapters_oracle(ctx):
    import collections

    def oracle(case):
        kind = case[0]
        if kind == "indexing":
            _, n, idx, empty, v = case
            con = C.Indexing(C.Array(n, C.Byte), n, idx, empty=empty)
            want = bytes([v if i == (idx % n) else empty for i in range(n)])
            value, back = v, v
        elif kind == "slicing":
            _, n, start, stop, step, empty, lst = case
            con = C.Slicing(C.Array(n, C.Byte), n, start, stop, step, empty=empty)
            model = [empty] * n
            model[start:stop:step] = lst
            want = bytes(model)
            value, back = lst, model[start:stop:step]
        elif kind == "filter":
            _, threshold, lst = case
            con = C.Filter(C.obj_ >= threshold, C.GreedyRange(C.Byte))
            kept = [x for x in lst if x >= threshold]
            want = bytes(kept)
            value, back = lst, kept
        else:
            _, shape, a, b = case
            sub = {"seq": C.Sequence(C.Byte, C.Int16ub), "array": C.Array(2, C.Int16ub), "struct": C.Struct("a" / C.Byte, "b" / C.Int16ub), "grange": C.GreedyRange(C.Int16ub),
                   "struct-permuted": C.Struct("a" / C.Byte, "b" / C.Int16ub)}[shape]
            fields = "b a" if shape == "struct-permuted" else "a b"     # (with a Struct the fields are matched by name, in any order)
            con = C.NamedTuple("T", fields, sub)
            T = collections.namedtuple("T", fields)
            value = T(a=a, b=b)
            want = (bytes([a]) if shape in ("seq", "struct", "struct-permuted") else a.to_bytes(2, "big")) + b.to_bytes(2, "big")
            back = value
        ctx.record(case, True, ["adapters/" + kind])
        b_ = call(con.build, value)
        if not b_.ok or b_.value != want:
            return Failure("C01/adapters/%s-build" % kind, "%s: build(%r) -> %r, by definition %s" % (case[:-1], value, b_, want.hex()))
        p = call(con.parse, want)
        got = list(p.value) if p.ok and kind in ("slicing", "filter") else (p.value if p.ok else None)
        if not p.ok or got != back or (kind == "namedtuple" and (type(p.value).__name__ != "T" or p.value.a != value.a or p.value.b != value.b)):
            return Failure("C01/adapters/%s-roundtrip" % kind, "%s: parse(build(%r)) -> %r, expected %r" % (case[:-1], value, p, back))
        return None
    return oracle


@st.composite
def adapters_cases(draw):
    kind = draw(st.sampled_from(["indexing", "slicing", "filter", "namedtuple"]))
    byte = st.integers(0, 255)
    if kind == "indexing":
        n = draw(st.integers(1, 6))
        return [kind, n, draw(st.integers(-n, n - 1)), draw(byte), draw(byte)]
    if kind == "slicing":
        n = draw(st.integers(0, 7))
        start = draw(st.integers(0, n))
        stop = draw(st.one_of(st.none(), st.integers(start, n)))
        step = draw(st.integers(1, 3))
        k = len(range(n)[start:stop:step])
        return [kind, n, start, stop, step, draw(byte), draw(st.lists(byte, min_size=k, max_size=k))]
    if kind == "filter":
        return [kind, draw(st.integers(0, 200)), draw(st.lists(byte, max_size=8))]
    return [kind, draw(st.sampled_from(["seq", "array", "struct", "grange", "struct-permuted"])), draw(byte), draw(st.integers(0, 65535))]


def campaign_adapters(ctx):
    ctx.search(adapters_cases(), adapters_oracle(ctx), ctx.budget(3000, 40000))
campaign_adapters.shards = (1, 4)


CAMPAIGNS = {"roundtrip": campaign_roundtrip, "leaves": campaign_leaves, "adapters": campaign_adapters}


def replay(campaign, case):
    class _C:
        def record(self, *a, **k): pass
    if campaign == "adapters":
        return adapters_oracle(_C())(case)
    return oracle_factory(_C())(case)
