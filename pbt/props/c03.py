"""C03 — encodings match an independent executable specification (differential against pbt.refmodel)."""
import io
import itertools

from hypothesis import strategies as st

import construct as C

from pbt import grammar as G
from pbt import refmodel as R
from pbt import values as V
from pbt import ieee
from pbt.mutate import byte_inputs, mutated, padded_tails, spec_tokens
from pbt.harness import Failure, call, short

RULE = ("core-fragment spec trees (generated, sound by construction) x values and x byte strings (random, boundary, canonical, "
        "mutated canonical); every numeric type through each public name (alias, short name, FormatField, BytesInteger, "
        "BitsInteger) with all 8-bit values and all/strided 16-bit values, boundary values of wider types, all byte strings of "
        "the type's width for parse; VarInt/ZigZag enumerated below 2^21 (strided in quick tier); every byte through "
        "Flag/Enum/FlagsEnum/Mapping; oracle: bytes, value, stream advance and accept/reject must equal the reference model. "
        "non-trivial = value on a domain boundary, rejected case, non-canonical accepted input, or composite spec")
ASSUMPTIONS = ["reference model pbt/refmodel.py (independent of construct) is the specification; Python codecs trusted",
               "values are well-typed for their spec; ill-typed objects and missing Struct keys (documented KeyError) are not generated",
               "NaN compared by predicate (payload bits unspecified)"]


def focus_kind(spec):
    """kind of the innermost node reached by descending through single-child wrappers / single-member structs"""
    while True:
        k = spec[0]
        if k in ("struct", "seq") and len(spec[1]) == 1:
            spec = spec[1][0][1]
            continue
        cs = G.children(spec)
        if len(cs) == 1 and k not in ("enum", "flagsenum", "mapping", "const", "oneof", "noneof", "exprsym", "expradd", "exprvalid"):
            if cs[0][0] in ("gbytes", "int", "bytes") and k not in ("struct", "seq"):
                return k
            spec = cs[0]
            continue
        return k


def ref_build(spec, value, params):
    try:
        return "ok", R.ref_build(spec, value, params)
    except R.Reject as e:
        return "reject", e.reason
    except R.ForeignError as e:
        return "foreign", str(e)


def ref_parse(spec, data, params, start=0):
    try:
        v, pos = R.ref_parse(spec, data, params, start)
        return "ok", (v, pos)
    except R.Reject as e:
        return "reject", e.reason
    except R.ForeignError as e:
        return "foreign", str(e)


def check_build(spec, con, params, value, tag="C03"):
    """returns (Failure|None, status, bytes|None)"""
    status, ref = ref_build(spec, value, params)
    if status == "foreign":
        return None, status, None
    lib = call(con.build, value, **params)
    fk = focus_kind(spec)
    if status == "ok":
        if not lib.ok:
            return Failure("%s/build-rejects-valid/%s" % (tag, fk), "build(%s) raised %r; reference emits %s | spec=%s params=%s" % (
                short(value), lib, ref.hex(), short(spec, 400), params)), status, None
        if lib.value != ref:
            return Failure("%s/build-bytes/%s" % (tag, fk), "build(%s) -> %s, reference %s | spec=%s params=%s" % (
                short(value), lib.value.hex(), ref.hex(), short(spec, 400), params)), status, None
        return None, status, ref
    if lib.ok:
        return Failure("%s/build-accepts-invalid/%s" % (tag, fk), "build(%s) -> %s but the reference rejects (%s) | spec=%s params=%s" % (
            short(value), lib.value.hex(), ref, short(spec, 400), params)), status, None
    if not isinstance(lib.exc, C.ConstructError):
        return Failure("%s/build-foreign-exception/%s/%s" % (tag, fk, type(lib.exc).__name__),
                       "build(%s) raised %r instead of a ConstructError (reference: %s) | spec=%s" % (short(value), lib, ref, short(spec, 400))), status, None
    return None, status, None


def check_parse(spec, con, params, data, start=0, tag="C03"):
    status, ref = ref_parse(spec, b"\xa5" * start + data, params, start)
    if status == "foreign":
        return None, status
    s = io.BytesIO(b"\xa5" * start + data)
    s.seek(start)
    lib = call(con.parse_stream, s, **params)
    fk = focus_kind(spec)
    if status == "ok":
        v, pos = ref
        if not lib.ok:
            return Failure("%s/parse-rejects-valid/%s" % (tag, fk), "parse(%s) raised %r; reference value %s | spec=%s params=%s" % (
                data.hex(), lib, short(v), short(spec, 400), params)), status
        if not V.veq(lib.value, v):
            return Failure("%s/parse-value/%s" % (tag, fk), "parse(%s) -> %s, reference %s | spec=%s params=%s" % (
                data.hex(), short(lib.value), short(v), short(spec, 400), params)), status
        if s.tell() != pos:
            return Failure("%s/parse-advance/%s" % (tag, fk), "parse(%s) from offset %d left the stream at %d, reference %d | spec=%s" % (
                data.hex(), start, s.tell(), pos, short(spec, 400))), status
        return None, status
    if lib.ok:
        return Failure("%s/parse-accepts-invalid/%s" % (tag, fk), "parse(%s) -> %s but the reference rejects (%s) | spec=%s params=%s" % (
            data.hex(), short(lib.value), ref, short(spec, 400), params)), status
    if not isinstance(lib.exc, C.ConstructError):
        return Failure("%s/parse-foreign-exception/%s/%s" % (tag, fk, type(lib.exc).__name__),
                       "parse(%s) raised %r instead of a ConstructError (reference: %s) | spec=%s" % (data.hex(), lib, ref, short(spec, 400))), status
    return None, status


# ---------------------------------------------------------------------------------------------
# 1. every numeric type through every public name
# ---------------------------------------------------------------------------------------------
def int_specs(nbytes):
    out = []
    for signed in (False, True):
        for endian in "bln":
            if nbytes in G.INT_ALIAS_WIDTHS:
                out.append(["int", nbytes, signed, endian, "alias"])
            if (nbytes, signed) in G.FF_INT:
                out.append(["int", nbytes, signed, endian, "ff"])
            out.append(["int", nbytes, signed, endian, "bi"])
    if nbytes in G.SHORT_INT:
        out.append(["int", nbytes, False, "b", "short"])
    for signed in (False, True):
        for swapped in (False, True):
            out.append(["bitwise", ["bits", 8 * nbytes, signed, swapped]])
    if nbytes == 1:
        out.append(["bitwise", ["octet"]])
    return out


def int_oracle(ctx):
    def oracle(case):
        spec, value = case
        con = G.realise(spec)
        inner = spec[1] if spec[0] == "bitwise" else spec
        n = inner[1] if inner[0] == "int" else (1 if inner[0] == "octet" else inner[1] // 8)
        signed = inner[2] if inner[0] in ("int", "bits") else False
        lo, hi = (-(1 << (8 * n - 1)), (1 << (8 * n - 1)) - 1) if signed else (0, (1 << (8 * n)) - 1)
        boundary = value <= lo + 2 or value >= hi - 2 or abs(value) <= 1
        ctx.record(case, boundary, ["int/%dB" % n, "int/" + (inner[4] if inner[0] == "int" else "bits")])
        f, status, data = check_build(spec, con, {}, value)
        if f:
            return f
        if status == "ok":
            f, _ = check_parse(spec, con, {}, data + b"\x55", start=1)
            if f:
                return f
            # the same bit pattern read as bytes must parse back to the value (all byte strings of this width)
            v = call(con.parse, data)
            if not v.ok or v.value != value:
                return Failure("C03/parse-value/%s" % inner[0], "parse(build(%d)) -> %r | spec=%s" % (value, v, spec))
        return None
    return oracle


def campaign_ints(ctx):
    orc = int_oracle(ctx)
    specs8 = int_specs(1)
    for spec in specs8:
        for v in range(-130, 258):
            ctx.check_case([spec, v], orc)
    ctx.exhaustive("every 8-bit integer (and out-of-range neighbours) through every 8-bit public name / constructor")
    specs16 = int_specs(2)
    stride = 1 if ctx.thorough else 61
    vals16 = sorted(set(list(range(-32770, 65540, stride)) + [-32769, -32768, -32767, -1, 0, 1, 127, 128, 255, 256, 32767, 32768,
                                                            65534, 65535, 65536]))
    for i, spec in enumerate(specs16):
        if i % ctx.nshards != ctx.shard:
            continue
        for v in vals16:
            ctx.check_case([spec, v], orc)
    if ctx.thorough:
        ctx.exhaustive("every 16-bit integer through every 16-bit public name / constructor")
    for n in (3, 4, 8, 5, 7, 12, 16):
        for spec in int_specs(n):
            bits = 8 * n
            vals = set()
            for k in (0, 7, 8, 15, 16, 23, 24, 31, 32, 63, 64, bits - 1, bits):
                for d in (-2, -1, 0, 1):
                    vals.add((1 << k) + d)
                    vals.add(-(1 << k) + d)
            vals |= {0x010203, 0x01020304, 0x0102030405060708, -0x010203}
            for v in sorted(vals):
                ctx.check_case([spec, v], orc)
campaign_ints.shards = (2, 16)


def float_oracle(ctx):
    def oracle(case):
        spec, bits = case
        n = spec[1]
        con = G.realise(spec)
        value = ieee.decode(bits, n)
        eb, mb = ieee.FORMATS[n]
        e = (bits >> mb) & ((1 << eb) - 1)
        ctx.record(case, e in (0, 1, (1 << eb) - 1, (1 << eb) - 2), ["float/%dB" % n, "float/" + spec[3]])
        data = R.int_encode(bits, n, False, R.is_little(spec[2]))
        p = call(con.parse, data)
        if not p.ok or not V.veq(p.value, value):
            return Failure("C03/parse-value/float", "parse(%s) -> %r, reference %r | spec=%s" % (data.hex(), p, value, spec))
        b = call(con.build, value)
        if ieee.is_nan_pattern(bits, n):
            if not b.ok or not ieee.is_nan_pattern(R.int_decode(b.value, False, R.is_little(spec[2])), n):
                return Failure("C03/build-bytes/float", "build(nan) -> %r is not a NaN pattern | spec=%s" % (b, spec))
        elif not b.ok or b.value != data:
            return Failure("C03/build-bytes/float", "build(%r) -> %r, reference %s | spec=%s" % (value, b, data.hex(), spec))
        return None
    return oracle


def campaign_floats(ctx):
    orc = float_oracle(ctx)
    specs = []
    for n in (2, 4, 8):
        for endian in "bln":
            specs += [["float", n, endian, "alias"], ["float", n, endian, "ff"]]
        specs.append(["float", n, "b", "short"])
    # all binary16 patterns through one name per byte order (quick: strided), specials everywhere
    stride = 1 if ctx.thorough else 37
    for spec in specs:
        n = spec[1]
        if n == 2:
            for bits in range(0, 1 << 16, stride):
                ctx.check_case([spec, bits], orc)
        for bits in V._float_specials(n):
            ctx.check_case([spec, bits], orc)
    if ctx.thorough:
        ctx.exhaustive("every binary16 bit pattern through every Float16 name")
    strat = st.sampled_from(specs).flatmap(lambda s: st.tuples(st.just(s), st.integers(0, (1 << (8 * s[1])) - 1))).map(list)
    ctx.search(strat, orc, ctx.budget(6000, 60000))
    # doubles that do not fit narrower formats: overflow must be rejected, rounding must be to nearest even
    def narrow(case):
        spec, x = case
        con = G.realise(spec)
        ctx.record(case, True, ["float/narrowing"])
        f, status, data = check_build(spec, con, {}, x)
        return f
    xs = st.one_of(st.floats(allow_nan=False), st.sampled_from([65504.0, 65519.99, 65520.0, 3.4028235677973366e+38, 3.4028234e38, 1e-8, 5.96e-8, 2.98e-8, 1e-46]))
    ctx.search(st.tuples(st.sampled_from([s for s in specs if s[1] < 8]), xs).map(list), narrow, ctx.budget(3200, 30000), name="floats-narrow")
campaign_floats.shards = (1, 4)


# ---------------------------------------------------------------------------------------------
# 2. VarInt / ZigZag enumerated
# ---------------------------------------------------------------------------------------------
def campaign_varint(ctx):
    vi, zz = C.VarInt, C.ZigZag
    limit = 1 << 21
    stride = 1 if ctx.thorough else 211
    bad = []

    def one(v):
        data = R.varint_encode(v)
        b = call(vi.build, v)
        if not b.ok or b.value != data:
            return Failure("C03/build-bytes/varint", "VarInt.build(%d) -> %r, reference %s" % (v, b, data.hex()))
        s = io.BytesIO(data + b"\x80")
        p = call(vi.parse_stream, s)
        if not p.ok or p.value != v or s.tell() != len(data):
            return Failure("C03/parse-value/varint", "VarInt.parse(%s) -> %r (tell %d), reference %d" % (data.hex(), p, s.tell(), v))
        return None

    def onez(v):
        data = R.varint_encode(2 * v if v >= 0 else -2 * v - 1)
        b = call(zz.build, v)
        if not b.ok or b.value != data:
            return Failure("C03/build-bytes/zigzag", "ZigZag.build(%d) -> %r, reference %s" % (v, b, data.hex()))
        p = call(zz.parse, data)
        if not p.ok or p.value != v:
            return Failure("C03/parse-value/zigzag", "ZigZag.parse(%s) -> %r, reference %d" % (data.hex(), p, v))
        return None
    lo = ctx.shard * limit // ctx.nshards
    hi = (ctx.shard + 1) * limit // ctx.nshards
    n = 0
    boundaries = [0, 1, 126, 127, 128, 129, 16382, 16383, 16384, 16385, 2097150, 2097151]
    for v in itertools.chain(range(lo, hi, stride), [b for b in boundaries if lo <= b < hi]):
        n += 1
        f = one(v)
        if f:
            ctx.handle(f, ["varint", v])
            break
        z = v - limit // 2
        f = onez(z)
        if f:
            ctx.handle(f, ["zigzag", z])
            break
    ctx.stats.evaluations += 2 * n
    for b in boundaries:
        if lo <= b < hi:
            ctx.record(["varint", b], True, ["varint/boundary"])
    if ctx.thorough:
        ctx.exhaustive("every VarInt below 2^21 and every ZigZag in [-2^20, 2^20) built and parsed")
    # non-minimal encodings and wide values
    def wide(case):
        kind, v, padding = case
        spec = [kind]
        con = G.realise(spec)
        ctx.record(case, True, ["varint/wide"])
        f, status, data = check_build(spec, con, {}, v)
        if f:
            return f
        if status == "ok":
            # non-minimal: continuation bit on the last group followed by zero groups
            nm = data[:-1] + bytes([data[-1] | 0x80]) + b"\x80" * padding + b"\x00"
            f, _ = check_parse(spec, con, {}, nm + b"\x01")
            if f:
                return f
            f, _ = check_parse(spec, con, {}, data[:-1] + bytes([data[-1] | 0x80]))  # truncated: must be rejected
            return f
        return None
    strat = st.tuples(st.sampled_from(["varint", "zigzag"]), st.one_of(st.integers(-(1 << 130), 1 << 130), st.integers(-300, 300)),
                      st.integers(0, 3)).map(list)
    ctx.search(strat, wide, ctx.budget(6000, 40000), name="varint-wide")
campaign_varint.shards = (2, 16)


# ---------------------------------------------------------------------------------------------
# 3. every byte through Flag / Enum / FlagsEnum / Mapping
# ---------------------------------------------------------------------------------------------
def campaign_bytemaps(ctx):
    def oracle(case):
        spec, b = case
        con = G.realise(spec)
        ctx.record(case, True, ["bytemap/" + spec[0]])
        f, _ = check_parse(spec, con, {}, bytes([b]) + b"\x99")
        return f

    @st.composite
    def specs(draw):
        kind = draw(st.sampled_from(["flag", "enum", "flagsenum", "mapping"]))
        if kind == "flag":
            return ["flag"]
        g = V.GenCtx(V.CORE, 1, False)
        s = V.gen_mapped(draw, g, kind)
        s[1] = ["int", 1, False, "b", draw(st.sampled_from(["alias", "short", "ff", "bi"]))]
        if kind == "flagsenum":
            s[2] = [[l, m] for l, m in s[2] if m < 256] or [["A", 1]]
        else:
            s[2] = [[l, v] for l, v in s[2] if v < 256] or [["A", 1]]
        return s
    nspecs = ctx.budget(160, 800)

    def per_spec(spec):
        for b in range(256):
            f = oracle([spec, b])
            if f:
                return Failure(f.bucket, f.detail)
        # build every label / mapped object / every int
        return None
    ctx.search(specs(), per_spec, nspecs, name="bytemaps")
    ctx.exhaustive("every byte value parsed through each generated Flag/Enum/FlagsEnum/Mapping instance")
campaign_bytemaps.shards = (1, 4)


# ---------------------------------------------------------------------------------------------
# 4/5/6. composite specs: values, bytes, invalid values
# ---------------------------------------------------------------------------------------------
def nontrivial_spec(spec):
    ks = G.kinds(spec)
    return len(ks & {"struct", "seq", "array", "prefixed", "parray", "grange", "fixedsized", "padded", "aligned", "nullterm",
                     "switch", "ite", "if", "rebuild", "fseq", "pstr", "pascal", "cstr"}) >= 1 and G.depth(spec) >= 2


def values_oracle(ctx):
    def oracle(case):
        spec, params, value = case
        con = G.realise(spec)
        f, status, data = check_build(spec, con, params, value)
        labels = ["composite/build-" + status] + ["kind/" + k for k in G.kinds(spec)]
        ctx.record(case, status != "foreign" and (nontrivial_spec(spec) or status == "reject"), labels)
        if f:
            return f
        if status == "ok":
            f, st2 = check_parse(spec, con, params, data, start=0)
            if f:
                return f
            if not G.greedy(spec):
                f, _ = check_parse(spec, con, params, data + b"\x00\xff", start=2)
                if f:
                    return f
        return None
    return oracle


def campaign_values(ctx):
    ctx.search(V.cases(frag=V.CORE | {"bitwise", "bitstruct", "bytewise", "byteswapped", "bitsswapped", "bittail"}, depth=3).map(list), values_oracle(ctx), ctx.budget(10000, 160000))
campaign_values.shards = (4, 16)


@st.composite
def bytes_cases(draw):
    spec, params, value = draw(V.cases(frag=V.CORE, depth=3, ntflags=True))
    try:
        canonical = R.ref_build(spec, value, params)
    except (R.Reject, R.ForeignError):
        canonical = None
    tokens = spec_tokens(spec)
    if canonical is not None and tokens and draw(st.integers(0, 4)) == 0:
        data = draw(padded_tails(canonical, tokens))
    else:
        data = draw(byte_inputs(canonical))
    return [spec, params, data, draw(st.integers(0, 2))]


def bytes_oracle(ctx):
    def oracle(case):
        spec, params, data, start = case
        con = G.realise(spec)
        f, status = check_parse(spec, con, params, data, start=start)
        noncanon = False
        if status == "ok":
            try:
                v, pos = R.ref_parse(spec, data, params)
                noncanon = R.ref_build(spec, v, params) != data[:pos]
            except Exception:
                noncanon = False
        ctx.record(case, status == "reject" or noncanon, ["bytes/parse-" + status, "bytes/noncanonical" if noncanon else "bytes/other"])
        return f
    return oracle


def campaign_bytes(ctx):
    ctx.search(bytes_cases(), bytes_oracle(ctx), ctx.budget(10000, 160000))
campaign_bytes.shards = (4, 16)


@st.composite
def invalid_cases(draw):
    """valid (spec, value) with one leaf made invalid in a typed way: out of range, wrong length, unknown label"""
    spec, params, value = draw(V.cases(frag=V.CORE, depth=3))
    paths = list(_leaf_paths(spec, value, ()))
    if not paths:
        return [spec, params, value]
    path, leafspec = draw(st.sampled_from(paths))
    bad = draw(_invalid_value(leafspec, _get(value, path)))
    return [spec, params, _set(value, path, bad)]


def _leaf_paths(spec, value, path):
    k = spec[0]
    if k == "struct" and isinstance(value, dict):
        for name, sub in spec[1]:
            if name and name in value and value[name] is not None:
                yield from _leaf_paths(sub, value[name], path + (name,))
    elif k in ("seq",) and isinstance(value, list):
        for i, (name, sub) in enumerate(spec[1]):
            if i < len(value) and value[i] is not None:
                yield from _leaf_paths(sub, value[i], path + (i,))
    elif k in ("array", "grange", "parray") and isinstance(value, list):
        sub = spec[2] if k in ("array", "parray") else spec[1]
        yield path, spec
        for i, e in enumerate(value):
            yield from _leaf_paths(sub, e, path + (i,))
    elif k in ("int", "varint", "bytes", "pstr", "pascal", "cstr", "enum", "flagsenum", "mapping", "const", "float"):
        yield path, spec
    elif k in ("prefixed", "fixedsized", "padded", "aligned"):
        yield from _leaf_paths(spec[2], value, path)


def _get(v, path):
    for p in path:
        v = v[p]
    return v


def _set(v, path, new):
    if not path:
        return new
    if isinstance(v, dict):
        out = dict(v)
        out[path[0]] = _set(v[path[0]], path[1:], new)
        return out
    out = list(v)
    out[path[0]] = _set(v[path[0]], path[1:], new)
    return out


def _invalid_value(spec, cur):
    k = spec[0]
    if k == "int":
        lo, hi = V.int_range(spec)
        # out of range; and, for signed fields, negative values: fine for the field itself, refused where it serves as a length or count
        return st.sampled_from([lo - 1, hi + 1, lo - 257, hi + (1 << 70), -(1 << 200)] + ([-1, -2, lo] if lo < 0 else []))
    if k == "varint":
        return st.sampled_from([-1, -128, -(1 << 64)])
    if k == "float":
        return st.sampled_from([1e39, -1e39, 1e308 * 10]) if spec[1] < 8 else st.just(cur)
    if k == "bytes":
        # wrong lengths; and the documented alternative spellings of a value: a bytearray, an integer (written big-endian in the
        # field's width - when it fits)
        alts = [cur + b"x", cur[:-1] if cur else b"xx", cur + b"\x00\x00", int.from_bytes(cur, "big"), int.from_bytes(cur, "big") + 1, 1 << (8 * len(cur)), -1]
        return st.sampled_from(alts)
    if k == "pstr":
        return st.sampled_from([str(cur) + "x" * 40, "€" * 30]) if spec[2] != "ascii" else st.sampled_from(["€", str(cur) + "x" * 40])
    if k in ("pascal", "cstr"):
        enc = spec[2] if k == "pascal" else spec[1]
        return st.just("\udc80") if enc != "ascii" else st.sampled_from(["é", "\udc80"])
    if k == "enum":
        return st.sampled_from(["nolabel", "a", "", "7", "1", "255"])
    if k == "flagsenum":
        return st.sampled_from(["nolabel", "A|nolabel", {"nolabel": True}])
    if k == "mapping":
        return st.sampled_from(["nothing-maps-here", 424242])
    if k == "const":
        return st.sampled_from([b"\x01\x02\x03\x04\x05\x06", 123456789]) if cur is None else st.just(b"!" if isinstance(spec[1], bytes) else spec[1] + 1)
    if k in ("array", "grange", "parray"):
        return st.just(list(cur) + list(cur[:1]) if cur else cur)
    return st.just(cur)


def campaign_invalid(ctx):
    ctx.search(invalid_cases(), values_oracle(ctx), ctx.budget(6000, 80000))
campaign_invalid.shards = (3, 8)


CAMPAIGNS = {"ints": campaign_ints, "floats": campaign_floats, "varint": campaign_varint, "bytemaps": campaign_bytemaps,
             "values": campaign_values, "bytes": campaign_bytes, "invalid": campaign_invalid}


def replay(campaign, case):
    class _C:
        def record(self, *a, **k): pass
        def tally(self, *a, **k): pass
    c = _C()
    if campaign == "ints":
        return int_oracle(c)(case)
    if campaign == "floats":
        return float_oracle(c)(case)
    if campaign in ("values", "invalid"):
        return values_oracle(c)(case)
    if campaign == "bytes":
        return bytes_oracle(c)(case)
    if campaign == "floats-narrow":
        spec, x = case
        return check_build(spec, G.realise(spec), {}, x)[0]
    if campaign in ("varint", "varint-wide"):
        if len(case) == 2:
            spec = [case[0]]
            return check_build(spec, G.realise(spec), {}, case[1])[0]
        kind, v, padding = case
        spec = [kind]
        return check_build(spec, G.realise(spec), {}, v)[0]
    if campaign == "bytemaps":
        spec = case
        for b in range(256):
            f, _ = check_parse(spec, G.realise(spec), {}, bytes([b]) + b"\x99")
            if f:
                return f
        return None
    raise ValueError(campaign)
