"""C16 — lazy parsing is observationally equal to eager parsing under any access order."""
import io
import itertools

from hypothesis import strategies as st

import construct as C

from pbt import grammar as G
from pbt import refmodel as R
from pbt import values as V
from pbt.mutate import mutated
from pbt.harness import Failure, call, short
from pbt.props.c02 import lib_eq

RULE = ("member lists (<= 6) mixing fixed-size, context-sized (Bytes(this._.n) / this._params.n from the keyword context), "
        "length-prefixed (Prefixed +-includelength, PrefixedArray, PascalString) and unsizable (VarInt, CString) members without "
        "cross references, as LazyStruct, as LazyArray elements, and as Lazy(x) members of an ordinary Struct, each also nested in a "
        "parent Struct that accesses a lazy member during the parse and then reads a trailing field; inputs: canonical encodings "
        "and accepted mutations at stream offsets 0..3; histories: generated sequences of accesses by name, integer index, "
        "attribute, keys/values/items, iteration, len and slices with repetitions (thorough: all permutations of <= 6 members); "
        "oracle: the eager Struct/Array parse of the same bytes, compared member by member; stream position after parse_stream and "
        "before/after every access; building from the lazy result reproduces the canonical input. non-trivial = history is not "
        "the declaration order read once, or has a repeat, or the list has a prefixed/unsizable member")
ASSUMPTIONS = ["LazyContainer == Container is not used as oracle (documented nowhere; False by construction of the class)",
               "negative integer indices and cross references between lazy members are excluded (documented restriction)",
               "Lazy(x) is used only over members whose size can be measured (fixed, context-sized, Prefixed, PrefixedArray)"]

B1 = ["int", 1, False, "b", "alias"]
KINDS = {
    "fixed": [["int", 2, False, "b", "alias"], ["int", 3, True, "l", "alias"], ["bytes", 2], ["float", 4, "b", "alias"], ["flag"], ["const", b"\xc0\xde", None],
              ["array", 2, B1], ["pstr", 4, "utf8"], ["struct", [["x", B1], ["y", ["bytes", 2]]]]],
    "ctx": [["bytes", ["this", ["_params", "n"], "attr"]], ["bytes", ["this", ["_params", "n"], "item"]], ["array", ["this", ["_params", "n"], "attr"], B1]],
    "prefixed": [["prefixed", B1, ["gbytes"], False], ["prefixed", ["int", 2, False, "l", "alias"], ["gbytes"], True], ["prefixed", ["varint"], ["grange", B1], False],
                 ["parray", B1, ["int", 2, False, "b", "alias"]], ["parray", ["varint"], B1]],
    "unsizable": [["varint"], ["cstr", "utf8"], ["pascal", B1, "utf8"], ["zigzag"], ["struct", [["x", ["varint"]], ["y", B1]]]],
}
# sized by a member of the ENCLOSING struct (only meaningful when the list is nested under a parent that has "pre")
KINDS["ctxup"] = [["bytes", ["this", ["_", "pre"], "attr"]], ["array", ["this", ["_", "pre"], "item"], B1],
                  ["bytes", ["bin", "+", ["this", ["_", "pre"], "attr"], ["const", 1]]]]
# counted arrays of elements that have no size: their _actualsize reads the count and only then finds out that it cannot answer
KINDS["halfsizable"] = [["parray", B1, ["varint"]], ["parray", B1, ["cstr", "utf8"]], ["parray", ["varint"], ["pascal", B1, "utf8"]]]
# members that occupy no bytes but look at the stream where they stand: evaluated late they must still see their own place
KINDS["observer"] = [["tell"], ["peek", B1], ["peek", ["int", 2, False, "b", "alias"]], ["rawcopy", ["bytes", 0]], ["peek", ["const", b"\xc0", None]]]
OBSERVERS = ("tell", "peek", "rawcopy")
LAZY_OK = ("fixed", "ctx", "prefixed", "observer")


@st.composite
def member_lists(draw, for_lazy_wrapper=False, min_size=1, max_size=6, up=False, dup_names=False):
    n = draw(st.integers(min_size, max_size))
    members = []
    kinds = []
    for i in range(n):
        kind = draw(st.sampled_from(["fixed", "ctx", "prefixed"] if for_lazy_wrapper else ["fixed", "fixed", "ctx", "prefixed", "prefixed", "unsizable", "halfsizable", "observer"] + (["ctxup", "ctxup"] if up else [])))
        spec = draw(st.sampled_from(KINDS[kind]))
        # anonymous members: constants usually, any other kind now and then (an unnamed member is measured through its own
        # _actualsize, a named one through Renamed)
        anonymous = (spec[0] == "const" and draw(st.booleans())) or (not for_lazy_wrapper and draw(st.integers(0, 5)) == 0)
        name = "m%d" % i
        if i and dup_names and draw(st.integers(0, 7)) == 0:
            name = "m%d" % draw(st.integers(0, i - 1))     # a repeated member name ("reserved", "pad"): a name refers to the LAST member that carries it
        members.append([None if anonymous else name, spec])
        kinds.append(kind)
    return members, kinds


def build_input(draw, spec, params):
    if spec[0] == "struct":
        # (bytes do not depend on member names; an unnamed member that needs a value cannot be built, so name it for this purpose)
        # (members that only look at the stream add no bytes)
        spec = ["struct", [[n or "anon%d" % i, sp] for i, (n, sp) in enumerate(spec[1]) if sp[0] not in OBSERVERS]]
    value = V.gen_value(draw, spec, R.top_scope(params, "build"))
    try:
        return R.ref_build(spec, value, params)
    except (R.Reject, R.ForeignError):
        return None


def at_offset(con, data, start, params):
    s = io.BytesIO(b"\x99" * start + data + b"\x77\x77")
    s.seek(start)
    o = call(con.parse_stream, s, **params)
    return o, s


def member_names(members):
    return list(dict.fromkeys(n for n, _ in members if n))      # (a repeated name is one key, at the place of its first occurrence)


def struct_oracle(ctx):
    def oracle(case):
        members, params, data, start, history, nested = case[:6]
        deep = len(case) > 6 and case[6]
        eager_spec = ["struct", members]
        lazy_spec = ["lazystruct", members]
        names = member_names(members)
        if nested and names:
            probe = nested
            eager = C.Struct("pre" / C.Byte, "l" / G.realise(eager_spec), "c" / C.Computed(lambda c: c.l[probe]), "d" / C.Byte)
            lazy = C.Struct("pre" / C.Byte, "l" / G.realise(lazy_spec), "c" / C.Computed(lambda c: c.l[probe]), "d" / C.Byte)
            data = b"\x01" + data + b"\x5d"
            if deep:
                # the same member name one scope further out, holding another value: names resolve in the nearest scope
                unwrap = lambda con: C.FocusedSeq("mid", "pre" / C.Byte, "mid" / con, "z" / C.Byte)
                eager, lazy = unwrap(eager), unwrap(lazy)
                data = b"\x03" + data + b"\x00"
        else:
            eager, lazy = G.realise(eager_spec), G.realise(lazy_spec)
        e, es = at_offset(eager, data, start, params)
        if not e.ok:
            ctx.tally("struct/eager-rejects")
            # the bytes do not hold the whole struct. A lazy parse may still return (it skips what it can measure), but a member
            # whose bytes are missing has no value: reading it fails, the second time like the first
            l, ls = at_offset(lazy, data, start, params)
            if l.ok and not nested:
                for n in names:
                    first = call(lambda: l.value[n])
                    second = call(lambda: l.value[n])
                    third = call(lambda: getattr(l.value, n))
                    ctx.record([case, "failed-access", n], not first.ok, ["struct/access-on-short-input/" + ("fails" if not first.ok else "value")])
                    for later in (second, third):
                        if first.ok != later.ok or (first.ok and not lib_eq(first.value, later.value)) or (not first.ok and type(first.exc) is not type(later.exc)):
                            return Failure("C16/lazystruct/access-not-repeatable", "on input that the eager parse rejects, member %s reads %r the first time and %r later | members=%s data=%s" % (
                                n, first, later, short(members, 400), data.hex()))
            return None
        l, ls = at_offset(lazy, data, start, params)
        decl_once = [h for h in history if h[0] in ("name", "attr", "index")]
        nontriv = history != [["name", n] for n in names] or any(k[1][0] in ("prefixed", "parray", "varint", "cstr", "pascal", "zigzag") for k in members)
        upref = any("'pre'" in repr(sp) for _, sp in members)
        ctx.record(case, nontriv, ["struct/nested" if nested else "struct/top", "struct/members=%d" % len(members)] +
                   (["struct/sized-by-enclosing-scope" + ("/shadowed" if deep else "")] if upref and nested else []))
        where = "members=%s params=%s data=%s start=%d nested=%r history=%s" % (short(members, 500), params, data.hex(), start, nested, short(history, 300))
        if not l.ok:
            return Failure("C16/lazystruct/parse-raises", "eager parse succeeds, lazy parse raised %r | %s" % (l, where))
        if ls.tell() != es.tell():
            return Failure("C16/lazystruct/final-position", "lazy parse left the stream at %d, eager at %d | %s" % (ls.tell(), es.tell(), where))
        if nested and names:
            if not lib_eq(l.value.c, e.value.c) or l.value.d != e.value.d or l.value.pre != e.value.pre:
                return Failure("C16/lazystruct/surrounding-parse-disturbed", "parent struct parsed c=%s d=%r with the lazy member, c=%s d=%r eagerly | %s" % (
                    short(l.value.c), l.value.d, short(e.value.c), e.value.d, where))
            lc, ec = l.value.l, e.value.l
        else:
            lc, ec = l.value, e.value
        index_of = {n: i for i, (n, _) in enumerate(members) if n}
        for op in history:
            before = ls.tell()
            kind = op[0]
            if kind == "name":
                got, want = call(lambda: lc[op[1]]), ec[op[1]]
            elif kind == "attr":
                got, want = call(lambda: getattr(lc, op[1])), ec[op[1]]
            elif kind == "index":
                got, want = call(lambda: lc[index_of[op[1]]]), ec[op[1]]
            elif kind == "keys":
                got, want = call(lambda: list(lc.keys())), names
            elif kind == "iter":
                got, want = call(lambda: list(iter(lc))), names
            elif kind == "values":
                got, want = call(lambda: list(lc.values())), [ec[n] for n in names]
            elif kind == "items":
                got, want = call(lambda: [list(p) for p in lc.items()]), [[n, ec[n]] for n in names]
            else:
                continue
            if not got.ok or not lib_eq(got.value, want):
                return Failure("C16/lazystruct/access-value", "access %s -> %r, eager value %s | %s" % (op, got, short(want), where))
            if ls.tell() != before:
                return Failure("C16/lazycontainer/access-moves-stream", "access %s moved the stream from %d to %d | %s" % (op, before, ls.tell(), where))
        # building from the lazy result reproduces what the eager result builds (canonical input)
        bparams = dict(params, pre=1) if nested else params     # (stands in for the parent's member when built on its own)
        eb = call(G.realise(eager_spec).build, ec, **bparams)
        lb = call(G.realise(lazy_spec).build, lc, **bparams)
        cb = call(lambda: G.realise(eager_spec).build(C.Container(lc), **bparams))
        if eb.ok and not (lb.ok and lb.value == eb.value):
            return Failure("C16/lazystruct/build-from-lazy", "build from the lazy result -> %r, from the eager result %s | %s" % (lb, eb.value.hex(), where))
        if eb.ok and not (cb.ok and cb.value == eb.value):
            return Failure("C16/lazystruct/build-from-container-of-lazy", "Struct.build(Container(lazy)) -> %r, eager %s | %s" % (cb, eb.value.hex(), where))
        return None
    return oracle


@st.composite
def histories(draw, names, arrays=False, count=0):
    ops = []
    for _ in range(draw(st.integers(1, 10))):
        if arrays:
            k = draw(st.sampled_from(["index", "index", "index", "slice", "iter", "len", "eq"]))
            if k == "index" and count:
                ops.append(["index", draw(st.integers(0, count - 1))])
            elif k == "slice":
                ops.append(["slice", draw(st.one_of(st.none(), st.integers(-count - 1, count + 1))), draw(st.one_of(st.none(), st.integers(-count - 1, count + 1))),
                            draw(st.sampled_from([None, 1, 2, -1]))])
            elif k != "index":
                ops.append([k])
        else:
            k = draw(st.sampled_from(["name", "name", "attr", "index", "keys", "values", "items", "iter"]))
            if k in ("name", "attr", "index"):
                if names:
                    ops.append([k, draw(st.sampled_from(names))])
            else:
                ops.append([k])
    return ops


@st.composite
def struct_cases(draw):
    want_nested = draw(st.booleans())
    members, kinds = draw(member_lists(up=want_nested, dup_names=True))
    params = dict(n=draw(st.integers(0, 4)))
    spec = ["struct", members]
    data = build_input(draw, spec, dict(params, pre=1))     # (the parent's "pre" member will hold 1)
    if data is None:
        data = draw(st.binary(max_size=20))
    elif draw(st.integers(0, 3)) == 0:
        data = draw(mutated(data, max_ops=1))
    elif draw(st.integers(0, 5)) == 0 and data:
        data = data[:draw(st.integers(0, len(data) - 1))]       # truncated
    names = member_names(members)
    nested = draw(st.sampled_from(names)) if names and want_nested else None
    return [members, params, data, draw(st.integers(0, 3)), draw(histories(names)), nested, bool(nested) and draw(st.booleans())]


def campaign_lazystruct(ctx):
    ctx.search(struct_cases(), struct_oracle(ctx), ctx.budget(20000, 200000))
campaign_lazystruct.shards = (4, 16)


def campaign_permutations(ctx):
    """every access order of fixed member lists (quick: lists of <= 4 members, thorough: up to 6)"""
    orc = struct_oracle(ctx)
    lists = [
        [["a", KINDS["fixed"][0]], ["b", KINDS["prefixed"][0]], ["c", KINDS["unsizable"][0]], ["d", KINDS["ctx"][0]]],
        [["a", KINDS["prefixed"][3]], ["b", KINDS["fixed"][2]], ["c", KINDS["prefixed"][1]], ["d", KINDS["unsizable"][1]]],
        [["a", KINDS["unsizable"][2]], ["b", KINDS["prefixed"][4]], ["c", KINDS["fixed"][8]]],
    ]
    if ctx.thorough:
        lists.append([["a", KINDS["fixed"][1]], ["b", KINDS["prefixed"][2]], ["c", KINDS["ctx"][2]], ["d", KINDS["unsizable"][3]], ["e", KINDS["prefixed"][3]], ["f", KINDS["fixed"][3]]])
    params = dict(n=2)
    for li, members in enumerate(lists):
        if li % ctx.nshards != ctx.shard:
            continue
        spec = ["struct", members]
        value = {"a": None}
        sample_vals = {"int": 513, "bytes": b"xy", "float": 1.5, "flag": True, "array": [1, 2], "pstr": "ab", "struct": None, "prefixed": b"pq", "parray": [7, 8, 9], "varint": 300,
                       "cstr": "hi", "pascal": "yo", "zigzag": -3}
        val = {}
        for n, s in members:
            v = sample_vals[s[0]]
            if s[0] == "struct":
                v = {m: (5 if ms[0] in ("int", "varint") else b"zz") for m, ms in s[1]}
            if s[0] == "int" and s[1] == 3:
                v = -2
            if s[0] == "prefixed" and s[2][0] == "grange":
                v = [1, 2, 3]
            if s[0] == "array" and G.is_expr(s[1]):
                v = [4, 5]
            val[n] = v
        data = R.ref_build(spec, val, params)
        names = [n for n, _ in members]
        for perm in itertools.permutations(names):
            for style in ("name", "attr", "index"):
                hist = [[style, n] for n in perm] + [[style, perm[0]]]
                for nested in (None, perm[-1]):
                    ctx.check_case([members, params, data, 1, hist, nested], orc)
    ctx.exhaustive("all access permutations of %d fixed member lists x 3 access styles x top-level/nested" % len(lists))
campaign_permutations.shards = (3, 4)


# ---------------------------------------------------------------------------------------------
# LazyArray
# ---------------------------------------------------------------------------------------------
def array_oracle(ctx):
    def oracle(case):
        elem, count, params, data, start, history, nested = case
        eager_spec, lazy_spec = ["array", count, elem], ["lazyarray", count, elem]
        if nested:
            eager = C.Struct("pre" / C.Byte, "l" / G.realise(eager_spec), "c" / C.Computed(lambda c: c.l[nested - 1]), "d" / C.Byte)
            lazy = C.Struct("pre" / C.Byte, "l" / G.realise(lazy_spec), "c" / C.Computed(lambda c: c.l[nested - 1]), "d" / C.Byte)
            data = b"\x01" + data + b"\x5d"
        else:
            eager, lazy = G.realise(eager_spec), G.realise(lazy_spec)
        e, es = at_offset(eager, data, start, params)
        if not e.ok:
            ctx.tally("array/eager-rejects")
            return None
        l, ls = at_offset(lazy, data, start, params)
        ctx.record(case, True, ["array/nested" if nested else "array/top", "array/elem=" + elem[0]])
        where = "elem=%s count=%r params=%s data=%s start=%d nested=%r history=%s" % (elem, count, params, data.hex(), start, nested, short(history, 300))
        if not l.ok:
            return Failure("C16/lazyarray/parse-raises", "eager parse succeeds, lazy parse raised %r | %s" % (l, where))
        if ls.tell() != es.tell():
            return Failure("C16/lazyarray/final-position", "lazy parse left the stream at %d, eager at %d | %s" % (ls.tell(), es.tell(), where))
        if nested:
            if not lib_eq(l.value.c, e.value.c) or l.value.d != e.value.d:
                return Failure("C16/lazyarray/surrounding-parse-disturbed", "parent struct parsed c=%s d=%r with the lazy member, c=%s d=%r eagerly | %s" % (
                    short(l.value.c), l.value.d, short(e.value.c), e.value.d, where))
            lc, ec = l.value.l, list(e.value.l)
        else:
            lc, ec = l.value, list(e.value)
        for op in history:
            k = op[0]
            if k == "seek":
                # the stream is the caller's again: it may stand anywhere (on an element's first byte, say) when the next access comes
                ls.seek(min(start + op[1], len(ls.getvalue())))
                continue
            before = ls.tell()
            if k == "index":
                if op[1] >= len(ec):
                    continue
                got, want = call(lambda: lc[op[1]]), ec[op[1]]
            elif k == "slice":
                sl = slice(op[1], op[2], op[3])
                got, want = call(lambda: lc[sl]), ec[sl]
            elif k == "iter":
                got, want = call(lambda: list(iter(lc))), ec
            elif k == "len":
                got, want = call(lambda: len(lc)), len(ec)
            else:
                # element-wise == (a NaN element is unequal to itself, for lists of plain floats too when compared by value)
                got, want = call(lambda: lc == ec), all(bool(x == y) for x, y in zip(ec, list(ec)))
            if not got.ok or not lib_eq(got.value, want):
                return Failure("C16/lazyarray/access-value", "access %s -> %r, eager %s | %s" % (op, got, short(want), where))
            if ls.tell() != before:
                return Failure("C16/lazycontainer/access-moves-stream", "access %s moved the stream from %d to %d | %s" % (op, before, ls.tell(), where))
        eb = call(G.realise(eager_spec).build, ec, **params)
        lb = call(G.realise(lazy_spec).build, lc, **params)
        if eb.ok and not (lb.ok and lb.value == eb.value):
            return Failure("C16/lazyarray/build-from-lazy", "build from the lazy result -> %r, eager %s | %s" % (lb, eb.value.hex(), where))
        return None
    return oracle


@st.composite
def array_cases(draw):
    kind = draw(st.sampled_from(["fixed", "ctx", "prefixed", "prefixed", "unsizable", "halfsizable"]))
    elem = draw(st.sampled_from(KINDS[kind]))
    params = dict(n=draw(st.integers(0, 3)), cnt=draw(st.integers(0, 4)))
    count = draw(st.sampled_from([params["cnt"], ["this", ["_params", "cnt"], "attr"]]))
    spec = ["array", count, elem]
    data = build_input(draw, spec, params)
    if data is None:
        data = draw(st.binary(max_size=16))
    nested = draw(st.integers(1, params["cnt"])) if params["cnt"] and draw(st.booleans()) else None
    history = draw(histories([], arrays=True, count=params["cnt"]))
    if draw(st.booleans()):
        moved = []
        for op in history:
            if draw(st.integers(0, 2)) == 0:
                moved.append(["seek", draw(st.integers(0, 12))])
            moved.append(op)
        history = moved
    return [elem, count, params, data, draw(st.integers(0, 3)), history, nested]


def campaign_lazyarray(ctx):
    ctx.search(array_cases(), array_oracle(ctx), ctx.budget(16000, 160000))
campaign_lazyarray.shards = (3, 16)


# ---------------------------------------------------------------------------------------------
# Lazy(x) members inside an ordinary Struct
# ---------------------------------------------------------------------------------------------
def lazy_oracle(ctx):
    def oracle(case):
        members, lazyflags, params, data, start, order = case
        eager = C.Struct(*[(n / G.realise(s)) if n else G.realise(s) for n, s in members])
        lazy = C.Struct(*[((n / C.Lazy(G.realise(s))) if fl else (n / G.realise(s))) if n else G.realise(s) for (n, s), fl in zip(members, lazyflags)])
        e, es = at_offset(eager, data, start, params)
        if not e.ok:
            ctx.tally("lazy/eager-rejects")
            return None
        l, ls = at_offset(lazy, data, start, params)
        ctx.record(case, True, ["lazy/members=%d" % len(members), "lazy/lazies=%d" % sum(lazyflags)])
        where = "members=%s lazy=%s params=%s data=%s start=%d order=%s" % (short(members, 500), lazyflags, params, data.hex(), start, order)
        if not l.ok:
            return Failure("C16/lazy/parse-raises", "eager parse succeeds, parse with Lazy members raised %r | %s" % (l, where))
        if ls.tell() != es.tell():
            return Failure("C16/lazy/final-position", "Struct with Lazy members left the stream at %d, eager at %d | %s" % (ls.tell(), es.tell(), where))
        for (n, s), fl in zip(members, lazyflags):
            if n and not fl and not lib_eq(l.value[n], e.value[n]):
                return Failure("C16/lazy/eager-member-after-lazy", "member %s parsed to %s after a Lazy member, eagerly %s | %s" % (n, short(l.value[n]), short(e.value[n]), where))
        for n in order:
            before = ls.tell()
            thunk = l.value[n]
            if not callable(thunk):
                continue
            got = call(thunk)
            if not got.ok or not lib_eq(got.value, e.value[n]):
                return Failure("C16/lazy/thunk-value", "Lazy member %s evaluates to %r, eager value %s | %s" % (n, got, short(e.value[n]), where))
            if ls.tell() != before:
                return Failure("C16/lazy/thunk-moves-stream", "evaluating %s moved the stream from %d to %d | %s" % (n, before, ls.tell(), where))
        eb = call(eager.build, e.value, **params)
        lb = call(lazy.build, l.value, **params)
        if eb.ok and not (lb.ok and lb.value == eb.value):
            return Failure("C16/lazy/build-from-lazy", "build from the result holding thunks -> %r, eager %s | %s" % (lb, eb.value.hex(), where))
        return None
    return oracle


@st.composite
def lazy_cases(draw):
    members, kinds = draw(member_lists(min_size=1, max_size=5))
    flags = [k in LAZY_OK and n is not None and draw(st.booleans()) for (n, s), k in zip(members, kinds)]
    if draw(st.integers(0, 5)) == 0:
        # a lazily parsed counted array whose elements are sized by an (eagerly parsed) earlier member: measured in the scope the
        # elements will be parsed in - the documented expansion of PrefixedArray is one scope of its own
        members = members + [["q", B1], ["r", ["parray", B1, ["struct", [["d", ["bytes", ["bin", "&", ["this", ["_", "_", "q"], "attr"], ["const", 3]]]]]]]]]
        kinds = kinds + ["fixed", "prefixed"]
        flags = flags + [False, True]
    params = dict(n=draw(st.integers(0, 4)))
    data = build_input(draw, ["struct", members], params)
    if data is None:
        data = draw(st.binary(max_size=20))
    lazies = [n for (n, s), f in zip(members, flags) if f]
    order = draw(st.lists(st.sampled_from(lazies), max_size=8)) if lazies else []
    return [members, flags, params, data, draw(st.integers(0, 3)), order]


def campaign_lazy(ctx):
    ctx.search(lazy_cases(), lazy_oracle(ctx), ctx.budget(16000, 160000))
campaign_lazy.shards = (3, 16)


CAMPAIGNS = {"lazystruct": campaign_lazystruct, "permutations": campaign_permutations, "lazyarray": campaign_lazyarray, "lazy": campaign_lazy}


def replay(campaign, case):
    class _C:
        def record(self, *a, **k): pass
        def tally(self, *a, **k): pass
    c = _C()
    if campaign in ("lazystruct", "permutations"):
        return struct_oracle(c)(case)
    if campaign == "lazyarray":
        return array_oracle(c)(case)
    return lazy_oracle(c)(case)
