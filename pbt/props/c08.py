"""C08 — delimited regions confine their inner construct; offsets stay absolute."""
import io

from hypothesis import strategies as st

import construct as C

from pbt.harness import Failure, call, short

RULE = ("chains (depth 1..4) of Prefixed (Byte/Int16ub/Int16ul/VarInt/Int8sb length, +-includelength), FixedSized, NullTerminated "
        "(include x consume x require x 1/2/4-byte terminator), NullStripped (1/2/4-byte pad), OffsettedEnd and ProcessXor around an "
        "observing Struct(t0/Tell, g/<GreedyBytes | Bytes(k) | RawCopy(Bytes(k)) | Pointer(abs, Byte)>, t1/Tell), parsed with "
        "parse_stream from offsets 0..12 of an outer stream with random prefix, payload and suffix; oracle: an independent slicer "
        "computes from the raw bytes the region every delimiter must present and the outer position its contract prescribes; "
        "greedy g == exactly the region's bytes, Tell/RawCopy/Pointer positions are absolute offsets of the outermost stream, "
        "the outer tell() is the contractual one regardless of inner consumption, overlong regions -> StreamError. "
        "non-trivial = depth >= 2 or start offset > 0 or inner consumption < region")
ASSUMPTIONS = ["Tell/Pointer inside Transformed/Restreamed/ProcessRotateLeft/Compressed are documented as unsupported and not generated"]


class Expect(Exception):
    """the slicer predicts a stream error"""


LENFIELDS = {"Byte": (lambda: C.Byte, 1), "Int16ub": (lambda: C.Int16ub, 2), "Int16ul": (lambda: C.Int16ul, 2), "VarInt": (lambda: C.VarInt, None),
             "Int8sb": (lambda: C.Int8sb, 1)}


def read_len(name, content, a, b):
    """-> (value, position after the field)"""
    if name == "VarInt":
        v, shift, p = 0, 0, a
        while True:
            if p >= b:
                raise Expect("eof in varint")
            byte = content[p]
            p += 1
            v |= (byte & 0x7f) << shift
            shift += 7
            if not byte & 0x80:
                return v, p
    n = LENFIELDS[name][1]
    if a + n > b:
        raise Expect("eof in length")
    raw = bytes(content[a:a + n])
    if name == "Int16ul":
        return int.from_bytes(raw, "little"), a + n
    if name == "Int8sb":
        return int.from_bytes(raw, "big", signed=True), a + n
    return int.from_bytes(raw, "big"), a + n


def strip_units(data, pad):
    u = len(pad)
    end = len(data)
    if u == 1:
        while end > 0 and data[end - 1:end] == pad:
            end -= 1
        return end
    tail = end % u
    if tail and data[end - tail:end] == pad[:tail]:
        end -= tail
    while end - u >= 0 and data[end - u:end] == pad:
        end -= u
    return end


def apply(d, content, a, b):
    """one delimiter on the enclosing region [a,b): -> (region start, region end, position in the enclosing stream afterwards)"""
    k = d[0]
    if k == "prefixed":
        _, lf, incl = d
        L, p = read_len(lf, content, a, b)
        if incl:
            L -= LENFIELDS[lf][1]
        if L < 0 or p + L > b:
            raise Expect("region length")
        return p, p + L, p + L
    if k == "fixedsized":
        n = d[1]
        if a + n > b:
            raise Expect("fixed region")
        return a, a + n, a + n
    if k == "nullterm":
        _, term, include, consume, require = d
        u = len(term)
        cur = a
        while True:
            if cur + u > b:
                if require:
                    raise Expect("terminator missing")
                return a, cur, b
            if bytes(content[cur:cur + u]) == term:
                return a, (cur + u if include else cur), (cur + u if consume else cur)
            cur += u
    if k == "nullstrip":
        end = strip_units(bytes(content[a:b]), d[1])
        return a, a + end, b
    if k == "offsettedend":
        length = (b + d[1]) - a
        if length < 0:
            raise Expect("negative length")
        return a, a + length, a + length
    if k == "xor":
        key = d[1]
        kb = bytes([key]) if isinstance(key, int) else key
        for i in range(a, b):
            content[i] ^= kb[(i - a) % len(kb)]
        return a, b, b
    raise ValueError(k)


def make(d, inner):
    k = d[0]
    if k == "prefixed":
        return C.Prefixed(LENFIELDS[d[1]][0](), inner, includelength=d[2])
    if k == "fixedsized":
        return C.FixedSized(d[1], inner)
    if k == "nullterm":
        return C.NullTerminated(inner, term=d[1], include=d[2], consume=d[3], require=d[4])
    if k == "nullstrip":
        return C.NullStripped(inner, pad=d[1])
    if k == "offsettedend":
        return C.OffsettedEnd(d[1], inner)
    if k == "xor":
        return C.ProcessXor(d[1], inner)
    raise ValueError(k)


def observer(obs):
    k = obs[0]
    if k == "greedy":
        g = C.GreedyBytes
    elif k == "bytes":
        g = C.Bytes(obs[1])
    elif k == "rawcopy":
        g = C.RawCopy(C.Bytes(obs[1]))
    else:
        g = C.Pointer(obs[1], C.Byte)
    return C.Struct("t0" / C.Tell, "g" / g, "t1" / C.Tell)


def oracle_factory(ctx):
    def oracle(case):
        chain, obs, data, start = case
        con = observer(obs)
        for d in reversed(chain):
            con = make(d, con)
        content = bytearray(data)
        a, b = start, len(data)
        after = None
        expect_err = None
        try:
            for i, d in enumerate(chain):
                ra, rb, aft = apply(d, content, a, b)
                if i == 0:
                    after = aft
                a, b = ra, rb
            # observer inside [a, b)
            k = obs[0]
            if k == "greedy":
                g, t1 = bytes(content[a:b]), b
            elif k in ("bytes", "rawcopy"):
                n = obs[1]
                if a + n > b:
                    raise Expect("observer reads past the region")
                g, t1 = bytes(content[a:a + n]), a + n
            else:
                target = obs[1]
                if not a <= target < b:
                    raise Expect("pointer target outside the region")
                g, t1 = content[target], a
        except Expect as e:
            expect_err = str(e)
        s = io.BytesIO(data)
        s.seek(start)
        o = call(con.parse_stream, s)
        consumed_less = expect_err is None and obs[0] != "greedy" and (t1 - a) < (b - a)
        ctx.record(case, len(chain) >= 2 or start > 0 or consumed_less, ["depth=%d" % len(chain), "obs/" + obs[0], "expect-error" if expect_err else "expect-ok"] +
                   ["delim/" + d[0] for d in chain])
        where = "chain=%s observer=%s data=%s start=%d" % (chain, obs, data.hex(), start)
        key = chain[-1][0]
        if expect_err is not None:
            if o.ok:
                return Failure("C08/%s/overlong-accepted" % key, "slicer predicts a stream error (%s) but parse -> %s | %s" % (expect_err, short(o.value), where))
            if not isinstance(o.exc, C.StreamError):
                return Failure("C08/%s/wrong-error" % key, "slicer predicts a stream error (%s) but parse raised %r | %s" % (expect_err, o, where))
            return None
        if not o.ok:
            return Failure("C08/%s/rejects" % key, "region [%d,%d) is well-formed but parse raised %r | %s" % (a, b, o, where))
        v = o.value
        if v.t0 != a:
            return Failure("C08/%s/tell-not-absolute" % key, "Tell at region start reports %r, absolute offset is %d | %s" % (v.t0, a, where))
        if obs[0] == "rawcopy":
            r = v.g
            if (r.offset1, r.offset2, r.data, r.length) != (a, t1, g, len(g)):
                return Failure("C08/%s/rawcopy-offsets" % key, "RawCopy reports offsets %r..%r data %r, expected %d..%d data %r | %s" % (r.offset1, r.offset2, r.data, a, t1, g, where))
        elif v.g != g:
            what = "greedy inner construct" if obs[0] == "greedy" else obs[0]
            return Failure("C08/%s/region-content" % key, "%s saw %r, the region [%d,%d) holds %r | %s" % (what, v.g, a, b, g, where))
        if v.t1 != t1:
            return Failure("C08/%s/tell-not-absolute" % key, "Tell after the inner field reports %r, expected %d | %s" % (v.t1, t1, where))
        if s.tell() != after:
            return Failure("C08/%s/outer-position" % chain[0][0], "after parse_stream the outer stream is at %d, the contract of %s says %d | %s" % (s.tell(), chain[0], after, where))
        # the same region skipped instead of parsed (Lazy measures it through _actualsize): same outer position, and the deferred
        # parse sees the same region at the same absolute offsets without moving the outer stream
        if chain[0][0] in ("prefixed", "fixedsized"):
            s2 = io.BytesIO(data)
            s2.seek(start)
            lo = call(C.Lazy(con).parse_stream, s2)
            ctx.record([case, "lazy"], True, ["lazy-skip/" + chain[0][0]])
            if not lo.ok:
                return Failure("C08/%s/lazy-rejects" % chain[0][0], "Lazy(region) raised %r although the region parses | %s" % (lo, where))
            if s2.tell() != after:
                return Failure("C08/%s/lazy-outer-position" % chain[0][0], "after skipping the region lazily the outer stream is at %d, the contract of %s says %d | %s" % (s2.tell(), chain[0], after, where))
            lv = call(lo.value)
            if not lv.ok or lv.value.t0 != v.t0 or lv.value.t1 != v.t1 or (obs[0] != "rawcopy" and lv.value.g != v.g):
                return Failure("C08/%s/lazy-region-content" % chain[0][0], "deferred parse of the skipped region -> %r, eager %s | %s" % (lv, short(v), where))
            if s2.tell() != after:
                return Failure("C08/%s/lazy-moves-outer" % chain[0][0], "evaluating the deferred region moved the outer stream to %d (was %d) | %s" % (s2.tell(), after, where))
        return None
    return oracle


@st.composite
def delimiters(draw):
    k = draw(st.sampled_from(["prefixed", "prefixed", "fixedsized", "nullterm", "nullterm", "nullstrip", "offsettedend", "xor"]))
    if k == "prefixed":
        lf = draw(st.sampled_from(sorted(LENFIELDS)))
        return ["prefixed", lf, draw(st.booleans()) if lf != "VarInt" else False]
    if k == "fixedsized":
        return ["fixedsized", draw(st.integers(0, 10))]
    if k == "nullterm":
        return ["nullterm", draw(st.sampled_from([b"\x00", b"\x00\x00", b"\xff", b"\x00\x00\x00\x00", b"ab"])), draw(st.booleans()), draw(st.booleans()), draw(st.booleans())]
    if k == "nullstrip":
        return ["nullstrip", draw(st.sampled_from([b"\x00", b"\x00\x00", b"\x00\x00\x00\x00", b"\xff", b"xy"]))]
    if k == "offsettedend":
        return ["offsettedend", draw(st.integers(-4, 0))]
    return ["xor", draw(st.one_of(st.integers(0, 255), st.binary(min_size=1, max_size=3)))]


@st.composite
def cases(draw, maxdepth=4):
    chain = draw(st.lists(delimiters(), min_size=1, max_size=maxdepth))
    start = draw(st.one_of(st.integers(0, 3), st.integers(0, 12)))
    # payload biased towards well-formed: small length bytes, zero terminators and pads sprinkled in
    alphabet = st.sampled_from([0, 0, 0, 1, 2, 3, 4, 5, 6, 8, 9, 0xff, 0x61, 0x62, 0x78, 0x79, 0x80, 0x7f])
    body = bytes(draw(st.lists(st.one_of(alphabet, st.integers(0, 255)), max_size=24)))
    data = draw(st.binary(min_size=start, max_size=start)) + body
    obs = draw(st.sampled_from(["greedy", "greedy", "bytes", "rawcopy", "pointer"]))
    if obs == "greedy":
        o = ["greedy"]
    elif obs == "pointer":
        o = ["pointer", draw(st.integers(0, max(0, len(data))))]
    else:
        o = [obs, draw(st.integers(0, 4))]
    return [chain, o, data, start]


def campaign_random(ctx):
    ctx.search(cases(4 if ctx.thorough else 3), oracle_factory(ctx), ctx.budget(36000, 600000))
campaign_random.shards = (6, 16)


def campaign_lengths(ctx):
    """single delimiters: every region length 0..8 (and one longer than available) x every start offset 0..3 x observers"""
    orc = oracle_factory(ctx)
    payload = bytes([7, 1, 2, 3, 0x61, 5, 6, 0, 8, 9, 0x62])
    singles = []
    for lf in sorted(LENFIELDS):
        for incl in (False, True):
            if lf == "VarInt" and incl:
                continue
            singles.append(("prefixed", lf, incl))
    for start in (0, 1, 2, 3, 7, 11):
        for n in range(0, 13):
            for obs in (["greedy"], ["bytes", 0], ["bytes", 2], ["rawcopy", 1], ["pointer", start + 2]):
                for lf, incl in [(s[1], s[2]) for s in singles]:
                    size = LENFIELDS[lf][1]
                    if lf == "VarInt":
                        head = bytes([n])
                    elif lf == "Int16ul":
                        head = (n + (size if incl else 0)).to_bytes(2, "little")
                    else:
                        head = (n + (size if incl else 0)).to_bytes(size, "big")
                    data = b"\xee" * start + head + payload
                    ctx.check_case([[["prefixed", lf, incl]], obs, data, start], orc)
                ctx.check_case([[["fixedsized", n]], obs, b"\xee" * start + payload, start], orc)
                ctx.check_case([[["offsettedend", -min(n, 4)]], obs, b"\xee" * start + payload[:n], start], orc)
                for term in (b"\x00", b"\x00\x00", b"\x00\x00\x00\x00"):
                    body = bytes((i % 250) + 1 for i in range(n)) + term + b"\x09"
                    for include in (False, True):
                        for consume in (False, True):
                            ctx.check_case([[["nullterm", term, include, consume, True]], obs, b"\xee" * start + body, start], orc)
                    ctx.check_case([[["nullterm", term, False, True, False]], obs, b"\xee" * start + bytes((i % 250) + 1 for i in range(n)), start], orc)
                    ctx.check_case([[["nullstrip", term]], obs, b"\xee" * start + bytes((i % 250) + 1 for i in range(n)) + term * 2 + term[:1], start], orc)
    ctx.exhaustive("single delimiters: region lengths 0..12 x start offsets 0..3 x 5 observers x all length-field types / terminator sizes / flags")
campaign_lengths.shards = (1, 1)


CAMPAIGNS = {"random": campaign_random, "lengths": campaign_lengths}


def replay(campaign, case):
    class _C:
        def record(self, *a, **k): pass
    return oracle_factory(_C())(case)
