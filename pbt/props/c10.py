"""C10 — bit-level fields are packed MSB-first across byte boundaries on both code paths."""
import sys
import itertools

from hypothesis import strategies as st

import construct as C
from construct import this

from pbt.harness import Failure, call, short

RULE = ("field lists partitioning 8..64 bits into BitsInteger fields of width 1..24 (signed, byte-swapped for multiples of 8), Bit/"
        "Nibble/Octet aliases, Flag, Padding, nested Struct, Array and Bytewise islands; all compositions of 8 bits x all 256 inputs "
        "and all compositions of 16 bits (quick: strided) x sampled inputs, selected 16-bit layouts x all 65536 inputs (thorough), "
        "random layouts and values beyond; each layout is realised twice: statically sized (Transformed) and with widths taken from "
        "keyword parameters (Restreamed, asserted by type); oracle: big-integer concatenation of two's-complement patterns, "
        "byte-reversed per 8-bit group when swapped. non-trivial = a field straddles a byte boundary, or is signed with the sign "
        "bit set, or the streaming path is used")
ASSUMPTIONS = ["widths sum to a multiple of 8; swapped only for widths that are multiples of 8 (documented)"]


# field: ["bits", w, signed, swapped] | ["flag"] | ["pad", w] | ["alias", name] | ["bytewise", nbytes, signed, swapped(, "bi"|"ff"|"native")]
#        | ["array", count, w, signed] | ["struct", [fields]]
def width(f):
    k = f[0]
    if k == "bits":
        return f[1]
    if k == "flag":
        return 1
    if k == "pad":
        return f[1]
    if k == "alias":
        return {"Bit": 1, "Nibble": 4, "Octet": 8}[f[1]]
    if k == "bytewise":
        return 8 * f[1]
    if k == "zero":
        return 0
    if k == "array":
        return f[1] * f[2]
    return sum(width(x) for x in f[1])


def pattern(v, w, signed, swapped):
    """bit pattern (as int of w bits) of value v"""
    u = v & ((1 << w) - 1)
    if swapped:
        out = 0
        for i in range(w // 8):
            out = (out << 8) | ((u >> (8 * i)) & 0xff)
        return out
    return u


def unpattern(u, w, signed, swapped):
    if swapped:
        out = 0
        for i in range(w // 8):
            out = (out << 8) | ((u >> (8 * i)) & 0xff)
        u = out
    if signed and u >> (w - 1):
        u -= 1 << w
    return u


def bw_swapped(f):
    """byte order of a Bytewise integer island: as declared, or the host's for the native-endian aliases (Int16un ...)"""
    return (sys.byteorder == "little") if len(f) > 4 and f[4] == "native" else f[3]


def model_build(fields, values):
    """-> (accumulated int, total bits)"""
    acc, n = 0, 0
    for f, v in zip(fields, values):
        k = f[0]
        w = width(f)
        if k == "bits":
            p = pattern(v, w, f[2], f[3])
        elif k == "flag":
            p = 1 if v else 0
        elif k == "pad":
            p = 0
        elif k == "alias":
            p = v
        elif k == "bytewise":
            # Bytewise(BytesInteger(n, signed, swapped)): the island holds the integer's bytes in stream order
            b = (v & ((1 << w) - 1)).to_bytes(f[1], "little" if bw_swapped(f) else "big")
            p = int.from_bytes(b, "big")
        elif k == "zero":
            p = 0
        elif k == "array":
            p = 0
            for e in v:
                p = (p << f[2]) | pattern(e, f[2], f[3], False)
        else:
            p, _ = model_build(f[1], v)
        acc = (acc << w) | p
        n += w
    return acc, n


def model_parse(fields, acc, n):
    out = []
    pos = n
    for f in fields:
        k = f[0]
        w = width(f)
        pos -= w
        u = (acc >> pos) & ((1 << w) - 1) if w else 0
        if k == "bits":
            out.append(unpattern(u, w, f[2], f[3]))
        elif k == "flag":
            out.append(bool(u))
        elif k == "pad":
            out.append(None)
        elif k == "alias":
            out.append(u)
        elif k == "bytewise":
            b = u.to_bytes(f[1], "big")
            out.append(int.from_bytes(b, "little" if bw_swapped(f) else "big", signed=f[2]))
        elif k == "zero":
            out.append({"bytes": b"", "array": [], "struct": {}}[f[1]])
        elif k == "array":
            vals = []
            for i in range(f[1]):
                e = (u >> (f[2] * (f[1] - 1 - i))) & ((1 << f[2]) - 1)
                vals.append(unpattern(e, f[2], f[3], False))
            out.append(vals)
        else:
            out.append(model_parse(f[1], u, w))
    return out


def make(fields, streaming, counter=None, params=None):
    """fields -> (Struct construct, params) ; streaming: widths via this._params so that sizeof() fails at construction"""
    counter = counter if counter is not None else [0]
    params = params if params is not None else {}
    subs = []
    for f in fields:
        k = f[0]
        counter[0] += 1
        name = "m%d" % counter[0]

        def wexpr(w):
            if not streaming:
                return w
            key = "w%d" % counter[0]
            params[key] = w
            return this._params[key]
        if k == "bits":
            subs.append(name / C.BitsInteger(wexpr(f[1]), signed=f[2], swapped=f[3]))
        elif k == "flag":
            subs.append(name / C.Flag)
        elif k == "pad":
            subs.append(C.Padding(wexpr(f[1])))
        elif k == "alias":
            subs.append(name / getattr(C, f[1]))
        elif k == "bytewise":
            if len(f) > 4 and f[4] != "bi":
                # the struct-module fields, by their public names: Int16ub, Int32sl, Int64un ...
                alias = "Int%d%s%s" % (8 * f[1], "s" if f[2] else "u", "n" if f[4] == "native" else ("l" if f[3] else "b"))
                subs.append(name / C.Bytewise(getattr(C, alias)))
            else:
                subs.append(name / C.Bytewise(C.BytesInteger(wexpr(f[1]), signed=f[2], swapped=f[3])))
        elif k == "zero":
            # a byte-level island of no bytes at all: it must take nothing from the bit stream and give nothing to it
            inner0 = {"bytes": C.Bytes(0), "array": C.Array(0, C.Byte), "struct": C.Struct()}[f[1]]
            subs.append(name / C.Bytewise(inner0))
        elif k == "array":
            subs.append(name / C.Array(f[1], C.BitsInteger(wexpr(f[2]), signed=f[3])))
        else:
            inner, _ = make(f[1], streaming, counter, params)
            subs.append(name / inner)
    return C.Struct(*subs), params


def to_value(fields, vals, counter=None):
    counter = counter if counter is not None else [0]
    d = {}
    for f, v in zip(fields, vals):
        counter[0] += 1
        name = "m%d" % counter[0]
        if f[0] == "pad":
            continue
        if f[0] == "struct":
            d[name] = to_value(f[1], v, counter)
        else:
            d[name] = v
    return d


def from_container(fields, c, counter=None):
    counter = counter if counter is not None else [0]
    out = []
    for f in fields:
        counter[0] += 1
        name = "m%d" % counter[0]
        if f[0] == "pad":
            out.append(None)
        elif f[0] == "struct":
            out.append(from_container(f[1], c[name], counter))
        elif f[0] == "array":
            out.append(list(c[name]))
        else:
            out.append(c[name])
    return out


def straddles(fields):
    pos = 0
    for f in flat(fields):
        w = width(f)
        if w and (pos // 8) != ((pos + w - 1) // 8) and f[0] != "pad":
            return True
        pos += w
    return False


def flat(fields):
    for f in fields:
        if f[0] == "struct":
            yield from flat(f[1])
        else:
            yield f


_cache = {}


def constructs(fields):
    key = repr(fields)
    if key not in _cache:
        if len(_cache) > 3000:
            _cache.clear()
        s1, _ = make(fields, False)
        s2, params = make(fields, True)
        static = C.Bitwise(s1)
        stream = C.Bitwise(s2)
        if not isinstance(static, C.Transformed):
            raise AssertionError("static layout did not choose the pre-read implementation")
        if params and not isinstance(stream, C.Restreamed):
            raise AssertionError("keyword-width layout did not choose the streaming implementation")
        _cache[key] = (static, stream, params, C.BitStruct(*s1.subcons))
    return _cache[key]


def check_layout(ctx, fields, data=None, vals=None):
    """one evaluation: parse `data` (bytes) or build `vals` through both implementations; returns Failure|None"""
    total = sum(width(f) for f in fields)
    nbytes = total // 8
    static, stream, params, bitstruct = constructs(fields)
    impls = [("static", static, {}), ("bitstruct", bitstruct, {})]
    if params:
        impls.append(("streaming", stream, params))
    if data is not None:
        acc = int.from_bytes(data, "big")
        want_vals = model_parse(fields, acc, total)
        want = to_value(fields, want_vals)
        signset = any(f[0] == "bits" and f[2] and isinstance(v, int) and v < 0 for f, v in zip(flat(fields), flatten_vals(fields, want_vals)))
        ctx.record([fields, data], straddles(fields) or signset or bool(params), ["parse", "bits=%d" % total])
        for name, con, kw in impls:
            o = call(con.parse, data + b"\xaa", **kw)
            if not o.ok:
                return Failure("C10/parse-raises/%s" % name, "%s parse(%s) raised %r | fields=%s" % (name, data.hex(), o, fields))
            got = from_container(fields, o.value)
            if got != want_vals or not types_ok(fields, got):
                return Failure("C10/parse-value/%s" % name, "%s parse(%s) -> %s, big-integer model %s | fields=%s" % (name, data.hex(), got, want_vals, fields))
            b = call(con.build, o.value, **kw)
            if not b.ok or b.value != _canon(fields, data, total):
                return Failure("C10/rebuild/%s" % name, "%s build(parse(%s)) -> %r | fields=%s" % (name, data.hex(), b, fields))
        return None
    acc, n = model_build(fields, vals)
    want = acc.to_bytes(nbytes, "big")
    value = to_value(fields, vals)
    signset = any(isinstance(v, int) and not isinstance(v, bool) and v < 0 for v in flatten_vals(fields, vals))
    ctx.record([fields, vals], straddles(fields) or signset or bool(params), ["build", "bits=%d" % total])
    for name, con, kw in impls:
        o = call(con.build, value, **kw)
        if not o.ok or o.value != want:
            return Failure("C10/build-bytes/%s" % name, "%s build(%s) -> %r, big-integer model %s | fields=%s" % (name, short(value), o, want.hex(), fields))
        p = call(con.parse, want, **kw)
        if not p.ok or from_container(fields, p.value) != model_parse(fields, acc, total):
            return Failure("C10/parse-value/%s" % name, "%s parse(%s) -> %r | fields=%s" % (name, want.hex(), p, fields))
    return None


def _canon(fields, data, total):
    """re-encoding zeroes the padding bits and normalises nothing else"""
    acc = int.from_bytes(data, "big")
    vals = model_parse(fields, acc, total)
    a2, _ = model_build(fields, [0 if v is None else v for v in _fill(fields, vals)])
    return a2.to_bytes(total // 8, "big")


def _fill(fields, vals):
    out = []
    for f, v in zip(fields, vals):
        if f[0] == "struct":
            out.append(_fill(f[1], v))
        else:
            out.append(v)
    return out


def flatten_vals(fields, vals):
    for f, v in zip(fields, vals):
        if f[0] == "struct":
            yield from flatten_vals(f[1], v)
        elif f[0] == "array":
            yield from v
        else:
            yield v


def types_ok(fields, vals):
    for f, v in zip(fields, vals):
        if f[0] == "flag" and not isinstance(v, bool):
            return False
        if f[0] in ("bits", "alias", "bytewise") and (not isinstance(v, int) or isinstance(v, bool)):
            return False
        if f[0] == "struct" and not types_ok(f[1], v):
            return False
    return True


def compositions(n, maxpart=24):
    if n == 0:
        yield []
        return
    for first in range(1, min(n, maxpart) + 1):
        for rest in compositions(n - first, maxpart):
            yield [first] + rest


def campaign_enum8(ctx):
    """all compositions of 8 bits x all 256 inputs, unsigned and signed, both implementations"""
    comps = list(compositions(8))
    for i, comp in enumerate(comps):
        if i % ctx.nshards != ctx.shard:
            continue
        for signed in (False, True):
            fields = [["bits", w, signed, False] for w in comp]
            for b in range(256):
                f = check_layout(ctx, fields, data=bytes([b]))
                if ctx.handle(f, [fields, bytes([b])]):
                    return
    ctx.exhaustive("all 128 compositions of 8 bits x signed/unsigned x all 256 byte values, static + BitStruct + streaming")
campaign_enum8.shards = (4, 8)


def campaign_enum16(ctx):
    comps = list(compositions(16))
    stride = 1 if ctx.thorough else 37
    probes = [0x0000, 0xffff, 0x8001, 0x7ffe, 0xa5c3, 0x0180]
    for i, comp in enumerate(comps):
        if i % ctx.nshards != ctx.shard or (i // ctx.nshards) % stride:
            continue
        signed = bool(i & 1)
        fields = [["bits", w, signed, (w % 8 == 0 and bool(i & 2))] for w in comp]
        for v in probes if not ctx.thorough else probes + [0x1234, 0xfedc, 0x00ff, 0xff00]:
            f = check_layout(ctx, fields, data=v.to_bytes(2, "big"))
            if ctx.handle(f, [fields, v.to_bytes(2, "big")]):
                return
    if ctx.thorough:
        ctx.exhaustive("all 32768 compositions of 16 bits x 10 probe inputs")
        chosen = [[16], [8, 8], [1, 15], [15, 1], [4, 12], [12, 4], [3, 5, 8], [7, 9], [9, 7], [1, 1, 14], [5, 5, 6], [2, 13, 1], [6, 10], [10, 6], [11, 5], [3, 13]]
        for j, comp in enumerate(chosen):
            if j % ctx.nshards != ctx.shard:
                continue
            for signed in (False, True):
                for swapped in (False, True):
                    fields = [["bits", w, signed, swapped and w % 8 == 0] for w in comp]
                    for v in range(65536):
                        f = check_layout(ctx, fields, data=v.to_bytes(2, "big"))
                        if ctx.handle(f, [fields, v.to_bytes(2, "big")]):
                            return
        ctx.exhaustive("16 selected 16-bit layouts x signed x swapped x all 65536 inputs")
campaign_enum16.shards = (4, 16)


@st.composite
def layouts(draw, depth=1):
    n = draw(st.integers(1, 6))
    fields = []
    for _ in range(n):
        k = draw(st.sampled_from(["bits", "bits", "bits", "bits", "flag", "pad", "alias", "bytewise", "array", "zero"] + (["struct"] if depth > 0 else [])))
        if k == "zero":
            fields.append(["zero", draw(st.sampled_from(["bytes", "array", "struct"]))])
            continue
        if k == "bits":
            w = draw(st.one_of(st.integers(1, 24), st.sampled_from([8, 16, 24, 32, 7, 9, 15, 17])))
            fields.append(["bits", w, draw(st.booleans()), draw(st.booleans()) if w % 8 == 0 else False])
        elif k == "flag":
            fields.append(["flag"])
        elif k == "pad":
            fields.append(["pad", draw(st.integers(1, 9))])
        elif k == "alias":
            fields.append(["alias", draw(st.sampled_from(["Bit", "Nibble", "Octet"]))])
        elif k == "bytewise":
            form = draw(st.sampled_from(["bi", "bi", "ff", "native"]))
            n = draw(st.integers(1, 3)) if form == "bi" else draw(st.sampled_from([1, 2, 2, 4, 8]))
            fields.append(["bytewise", n, draw(st.booleans()), draw(st.booleans()), form])
        elif k == "array":
            fields.append(["array", draw(st.integers(0, 4)), draw(st.integers(1, 9)), draw(st.booleans())])
        else:
            fields.append(["struct", draw(layouts(depth - 1))])
    return fields


def pad_to_byte(fields):
    total = sum(width(f) for f in fields)
    if total % 8:
        fields = fields + [["pad", -total % 8]]
    if sum(width(f) for f in fields) == 0:
        fields = fields + [["bits", 8, False, False]]
    return fields


def gen_vals(draw, fields):
    out = []
    for f in fields:
        k = f[0]
        if k == "bits":
            out.append(_int(draw, f[1], f[2]))
        elif k == "flag":
            out.append(draw(st.booleans()))
        elif k == "pad":
            out.append(None)
        elif k == "alias":
            out.append(_int(draw, width(f), False))
        elif k == "bytewise":
            out.append(_int(draw, 8 * f[1], f[2]))
        elif k == "zero":
            out.append({"bytes": b"", "array": [], "struct": {}}[f[1]])
        elif k == "array":
            out.append([_int(draw, f[2], f[3]) for _ in range(f[1])])
        else:
            out.append(gen_vals(draw, f[1]))
    return out


def _int(draw, w, signed):
    lo, hi = (-(1 << (w - 1)), (1 << (w - 1)) - 1) if signed else (0, (1 << w) - 1)
    return draw(st.one_of(st.sampled_from(sorted({lo, hi, 0, max(lo, -1), min(hi, 1)})), st.integers(lo, hi)))


@st.composite
def random_cases(draw):
    fields = pad_to_byte(draw(layouts()))
    total = sum(width(f) for f in fields)
    if total > 96:
        fields = [["bits", 8, False, False]]
        total = 8
    if draw(st.integers(0, 5)) == 0:
        # one member one step outside its range (2**(w-1) for a signed field, 2**w, -1 for an unsigned one ...)
        idx = [i for i, f in enumerate(fields) if f[0] == "bits"]
        if idx:
            i = draw(st.sampled_from(idx))
            w, signed = fields[i][1], fields[i][2]
            lo, hi = (-(1 << (w - 1)), (1 << (w - 1)) - 1) if signed else (0, (1 << w) - 1)
            vals = gen_vals(draw, fields)
            vals[i] = draw(st.sampled_from([hi + 1, lo - 1]))
            return [fields, "overflow", vals]
    if draw(st.booleans()):
        return [fields, "build", gen_vals(draw, fields)]
    return [fields, "parse", draw(st.binary(min_size=total // 8, max_size=total // 8))]


def random_oracle(ctx):
    def oracle(case):
        fields, mode, payload = case
        if mode == "overflow":
            static, stream, params, bitstruct = constructs(fields)
            value = to_value(fields, payload)
            ctx.record(case, True, ["overflow"])
            for name, con, kw in [("static", static, {}), ("bitstruct", bitstruct, {})] + ([("streaming", stream, params)] if params else []):
                o = call(con.build, value, **kw)
                if o.ok or not isinstance(o.exc, C.ConstructError):
                    return Failure("C10/overflow-accepted/%s" % name, "%s build(%s) -> %r: a value outside the field's range has no bit pattern | fields=%s" % (name, short(value), o, fields))
            return None
        if mode == "build":
            return check_layout(ctx, fields, vals=payload)
        return check_layout(ctx, fields, data=payload)
    return oracle


def campaign_random(ctx):
    ctx.search(random_cases(), random_oracle(ctx), ctx.budget(20000, 200000))
campaign_random.shards = (8, 16)


# ---------------------------------------------------------------------------------------------
# a read-to-end member behind bit fields that stop anywhere in a byte: the streaming region must hand it exactly the remaining
# bits (those already decoded and waiting included), like the pre-read region does
# ---------------------------------------------------------------------------------------------
def greedy_oracle(ctx):
    from construct.lib import bits2bytes, bytes2bits

    def oracle(case):
        fields, data = case[:2]
        optw = case[2] if len(case) > 2 else None      # width of an Optional(BitsInteger) tried between the fields and the rest
        total = sum(width(f) for f in fields)
        nbits = 8 * len(data)
        if total > nbits:
            return None
        rest_bits = nbits - total
        acc = int.from_bytes(data, "big")
        want_vals = model_parse(fields, acc >> rest_bits, total)
        want_opt = None
        if optw is not None and optw <= rest_bits:
            want_opt = (acc >> (rest_bits - optw)) & ((1 << optw) - 1)
            rest_bits -= optw
        want_rest = bytes((acc >> (rest_bits - 1 - i)) & 1 for i in range(rest_bits))

        def inner():
            st_, _ = make(fields, False)
            # (an attempt that runs out of data takes nothing: what it had looked at is still there for the next member)
            extra = ["opt" / C.Optional(C.BitsInteger(optw))] if optw is not None else []
            return C.Struct(*(list(st_.subcons) + extra + ["rest" / C.GreedyBytes]))
        impls = [("streaming", C.Bitwise(inner())), ("pre-read", C.Transformed(inner(), bytes2bits, None, bits2bytes, None))]
        ctx.record(case, total % 8 != 0, ["greedytail/" + ("unaligned" if total % 8 else "aligned"), "greedytail/rest=%d" % min(rest_bits, 16)])
        for name, con in impls:
            o = call(con.parse, data)
            if not o.ok:
                return Failure("C10/greedytail/parse-raises/%s" % name, "%s parse(%s) raised %r | fields=%s" % (name, data.hex(), o, fields))
            got = from_container(fields, o.value)
            if optw is not None and o.value.opt != want_opt:
                return Failure("C10/greedytail/optional/%s" % name, "%s parse(%s): Optional(BitsInteger(%d)) -> %r, expected %r (%d bits were left) | fields=%s" % (
                    name, data.hex(), optw, o.value.opt, want_opt, nbits - total, fields))
            if got != want_vals or o.value.rest != want_rest:
                return Failure("C10/greedytail/parse-value/%s" % name, "%s parse(%s) -> %s + rest %s, big-integer model %s + rest %s | fields=%s" % (
                    name, data.hex(), got, o.value.rest.hex(), want_vals, want_rest.hex(), fields))
            if optw is not None:
                continue        # (rebuilding is covered by the variant without the optional member)
            b = call(con.build, o.value)
            canon_fields, _ = model_build(fields, [0 if v is None else v for v in _fill(fields, want_vals)])
            want_bytes = ((canon_fields << rest_bits) | (acc & ((1 << rest_bits) - 1))).to_bytes(len(data), "big") if data else b""
            if not b.ok or b.value != want_bytes:
                return Failure("C10/greedytail/rebuild/%s" % name, "%s build(parse(%s)) -> %r, expected %s | fields=%s" % (name, data.hex(), b, want_bytes.hex(), fields))
        return None
    return oracle


@st.composite
def greedy_cases(draw):
    fields = [f for f in draw(layouts(0)) if f[0] != "zero"]
    total = sum(width(f) for f in fields)
    if total > 64:
        fields, total = [["bits", 3, False, False]], 3
    n = (total + 7) // 8 + draw(st.integers(0, 2))
    optw = draw(st.one_of(st.none(), st.none(), st.integers(1, 40)))
    return [fields, draw(st.binary(min_size=n, max_size=n)), optw]


def campaign_greedytail(ctx):
    ctx.search(greedy_cases(), greedy_oracle(ctx), ctx.budget(4000, 60000))
campaign_greedytail.shards = (2, 8)


CAMPAIGNS = {"enum8": campaign_enum8, "enum16": campaign_enum16, "random": campaign_random, "greedytail": campaign_greedytail}


def replay(campaign, case):
    class _C:
        def record(self, *a, **k): pass
    c = _C()
    if campaign == "random":
        return random_oracle(c)(case)
    if campaign == "greedytail":
        return greedy_oracle(c)(case)
    fields, data = case
    return check_layout(c, fields, data=data)
