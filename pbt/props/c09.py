"""C09 — look-ahead and alternatives leave the stream exactly where their contract says."""
import io

from hypothesis import strategies as st

import construct as C
from construct import this

from pbt import grammar as G
from pbt import refmodel as R
from pbt import values as V
from pbt.mutate import mutated
from pbt.harness import Failure, call, short
from pbt.props.c02 import lib_eq

RULE = ("Peek, Pointer (absolute and negative/end-relative offsets, parse and build), Select, Optional, GreedyRange and Union "
        "(parsefrom None / index / name) over alternatives and elements drawn from fixed (Int16ub), variable (VarInt, "
        "PascalString, CString), validating (Const, OneOf, tagged Struct) and generated nested constructs x random bytes and "
        "'almost valid' inputs (a valid encoding of alternative i corrupted at a byte position, so the failure happens inside a "
        "partially consumed alternative) x starting offsets 0..3; metamorphic oracle: every member parsed in isolation from a "
        "fresh stream at the same offset is the reference for values and end positions; stream.tell() must equal the "
        "contractual position. non-trivial = some alternative/element fails after consuming >= 1 byte")
ASSUMPTIONS = ["members are context-free, so parsing one in isolation is well defined", "GreedyRange elements consume at least one byte"]

POOL = [
    ["int", 2, False, "b", "alias"], ["int", 1, True, "b", "alias"], ["int", 3, False, "l", "alias"], ["varint"], ["zigzag"],
    ["pascal", ["int", 1, False, "b", "alias"], "utf8"], ["cstr", "ascii"], ["const", b"AB", None], ["const", 7, ["int", 1, False, "b", "alias"]],
    ["oneof", ["int", 1, False, "b", "alias"], [1, 2, 3]], ["bytes", 3], ["flag"],
    ["struct", [[None, ["const", b"\x01", None]], ["v", ["int", 2, False, "l", "alias"]]]],
    ["struct", [["n", ["int", 1, False, "b", "alias"]], ["d", ["bytes", ["this", ["n"], "attr"]]]]],
    ["struct", [["a", ["int", 1, False, "b", "alias"]], ["b", ["oneof", ["int", 1, False, "b", "alias"], [0, 255]]], ["c", ["int", 2, False, "b", "alias"]]]],
    ["array", 2, ["int", 1, False, "b", "alias"]], ["prefixed", ["int", 1, False, "b", "alias"], ["gbytes"], False],
    ["enum", ["int", 1, False, "b", "alias"], [["A", 1], ["B", 2]], "kw"], ["mapping", ["int", 1, False, "b", "alias"], [["x", 1], ["y", 200]]],
    ["pstr", 4, "utf8"], ["float", 4, "b", "alias"], ["padded", 3, ["int", 1, False, "b", "alias"], b"\x00"],
    ["struct", [["t", ["const", b"\x02\x02", None]], ["s", ["cstr", "utf8"]]]],
]


# members whose parse can fail with something that is NOT a ConstructError (a lambda dividing by zero, a codec rejecting its input):
# Select, Optional and GreedyRange treat any failure of an alternative/element alike (documented: "without exception")
FOREIGN_POOL = [
    ["struct", [["d", ["int", 1, False, "b", "alias"]], ["q", ["computed", ["bin", "//", ["const", 100], ["this", ["d"], "attr"]]]]]],
    ["prefixed", ["int", 1, False, "b", "alias"], ["compressed", ["gbytes"], "zlib", None], False],
    ["struct", [["d", ["int", 1, False, "b", "alias"]], [None, ["check", ["bin", ">", ["bin", "%", ["const", 7], ["this", ["d"], "attr"]], ["const", 0]]]]]],
]


@st.composite
def members(draw, n_min=1, n_max=3, foreign=False):
    out = []
    for _ in range(draw(st.integers(n_min, n_max))):
        if foreign and draw(st.integers(0, 3)) == 0:
            out.append(draw(st.sampled_from(FOREIGN_POOL)))
        elif draw(st.integers(0, 3)) == 0:
            g = V.GenCtx(V.CORE - {"gbytes", "gstr", "grange", "nullstrip"}, 1, False, ctxfree=True)
            out.append(V.gen_spec(draw, g))
        else:
            out.append(draw(st.sampled_from(POOL)))
    return out


def iso(spec, data, offset):
    """isolated parse from a fresh stream: (ok, value, end position, exception)"""
    con = G.realise(spec)
    s = io.BytesIO(data)
    s.seek(offset)
    o = call(con.parse_stream, s)
    return o, s.tell()


def valid_encoding(draw, spec):
    try:
        v = V.gen_value(draw, spec, R.top_scope({}, "build"))
        return R.ref_build(spec, v, {})
    except (R.Reject, R.ForeignError, Exception):
        return None


@st.composite
def inputs(draw, specs):
    """prefix junk + (random | almost-valid encoding of one member) + suffix"""
    start = draw(st.integers(0, 3))
    prefix = draw(st.binary(min_size=start, max_size=start))
    src = draw(st.sampled_from(["random", "valid", "almost", "almost", "concat"]))
    body = None
    if src != "random":
        spec = draw(st.sampled_from(specs))
        body = valid_encoding(draw, spec)
        if body is not None and src == "almost" and body:
            i = draw(st.integers(0, len(body) - 1))
            body = body[:i] + bytes([body[i] ^ draw(st.sampled_from([1, 0x80, 0xff, 0x10]))]) + body[i + 1:]
        if body is not None and src == "almost" and draw(st.booleans()):
            body = body[:draw(st.integers(0, len(body)))]
        if body is not None and src == "concat":
            for _ in range(draw(st.integers(1, 3))):
                more = valid_encoding(draw, draw(st.sampled_from(specs)))
                body += more or b""
    if body is None:
        body = draw(st.binary(max_size=12))
    return prefix + body + draw(st.binary(max_size=3)), start


def consumed_before_failing(specs, data, start):
    for sp in specs:
        o, end = iso(sp, data, start)
        if not o.ok and end > start:
            return True
    return False


def oracle_factory(ctx):
    def oracle(case):
        kind, specs, extra, data, start = case
        nontriv = consumed_before_failing(specs, data, start)
        ctx.record(case, nontriv, ["kind/" + kind, "partial-consumption" if nontriv else "clean"])
        where = "%s over %s extra=%r on %s from offset %d" % (kind, short(specs, 300), extra, data.hex(), start)
        subs = [G.realise(sp) for sp in specs]
        s = io.BytesIO(data)
        s.seek(start)
        if kind == "peek":
            con = C.Peek(subs[0])
            o = call(con.parse_stream, s)
            ref, _ = iso(specs[0], data, start)
            if s.tell() != start:
                return Failure("C09/peek/position", "Peek left the stream at %d, started at %d | %s" % (s.tell(), start, where))
            if ref.ok:
                if not (o.ok and lib_eq(o.value, ref.value)):
                    return Failure("C09/peek/value", "Peek -> %r, isolated parse -> %r | %s" % (o, ref, where))
            elif isinstance(ref.exc, C.ConstructError) and not isinstance(ref.exc, C.ExplicitError):
                if not (o.ok and o.value is None):
                    return Failure("C09/peek/failure-not-absorbed", "inner parse fails (%r) but Peek -> %r | %s" % (ref, o, where))
            # building does nothing
            b = call(con.build, 5)
            if not (b.ok and b.value == b""):
                return Failure("C09/peek/build", "Peek.build -> %r, expected no bytes" % (b,))
            return None
        if kind == "pointer":
            off = extra
            con = C.Struct("p" / C.Pointer(off, subs[0]), "after" / C.Tell)
            o = call(con.parse_stream, s)
            target = off if off >= 0 else len(data) + off
            if target < 0:
                return None
            ref, _ = iso(specs[0], data, target)
            if ref.ok:
                if not (o.ok and lib_eq(o.value.p, ref.value)):
                    return Failure("C09/pointer/value", "Pointer(%d) -> %r, isolated parse at %d -> %r | %s" % (off, o, target, ref, where))
                if o.value.after != start or s.tell() != start:
                    return Failure("C09/pointer/position", "after Pointer the stream is at %d (Tell says %r), started at %d | %s" % (s.tell(), o.value.after, start, where))
                # build: only the target bytes change, position restored
                enc = call(subs[0].build, ref.value)
                if enc.ok and target + len(enc.value) <= len(data) + 64:
                    buf = io.BytesIO(b"\xcc" * (len(data) + 8))
                    buf.seek(start)
                    pcon = C.Struct("p" / C.Pointer(target, subs[0]), "t" / C.Bytes(1))
                    bo = call(pcon.build_stream, dict(p=ref.value, t=b"T"), buf)
                    want = bytearray(b"\xcc" * (len(data) + 8))
                    want[target:target + len(enc.value)] = enc.value
                    want[start:start + 1] = b"T"
                    if target <= start < target + len(enc.value):
                        return None   # the marker overlaps the pointed-to field
                    if not bo.ok or buf.getvalue()[:len(want)] != bytes(want) or buf.tell() != start + 1:
                        return Failure("C09/pointer/build", "Pointer build -> %r, stream %s (pos %d), expected %s (pos %d) | %s" % (
                            bo, buf.getvalue().hex(), buf.tell(), bytes(want).hex(), start + 1, where))
            elif o.ok:
                return Failure("C09/pointer/value", "isolated parse at %d fails (%r) but Pointer -> %r | %s" % (target, ref, o, where))
            return None
        if kind == "pointer-stream":
            # Pointer given another stream (the enclosing one, through this._._io) from inside a Prefixed body: both streams must end
            # up where they were, so the rest of the body and the field after the region parse as if the Pointer were not there
            off = extra
            body = C.Struct("a" / C.Byte, "p" / C.Pointer(off, subs[0], stream=C.this._._io), "after" / C.Tell, "b" / C.Byte)
            con = C.Struct("hdr" / C.Byte, "body" / C.Prefixed(C.Byte, body), "tail" / C.Byte, "end" / C.Tell)
            plain = C.Struct("hdr" / C.Byte, "body" / C.Prefixed(C.Byte, C.Struct("a" / C.Byte, "after" / C.Tell, "b" / C.Byte)), "tail" / C.Byte, "end" / C.Tell)
            o = call(con.parse_stream, s)
            s2 = io.BytesIO(data)
            s2.seek(start)
            ref = call(plain.parse_stream, s2)
            target = off if off >= 0 else len(data) + off
            if not ref.ok or target < 0:
                return None
            iso_p, _ = iso(specs[0], data, target)
            if iso_p.ok:
                if not o.ok:
                    return Failure("C09/pointer-stream/rejects", "the pointed-to field parses in isolation and the body parses without the Pointer, but with it parse raised %r | %s" % (o, where))
                if not lib_eq(o.value.body.p, iso_p.value):
                    return Failure("C09/pointer-stream/value", "Pointer(stream=outer) -> %s, isolated parse at %d -> %s | %s" % (short(o.value.body.p), target, short(iso_p.value), where))
                got = (o.value.body.a, o.value.body.after, o.value.body.b, o.value.tail, o.value.end, s.tell())
                want = (ref.value.body.a, ref.value.body.after, ref.value.body.b, ref.value.tail, ref.value.end, s2.tell())
                if got != want:
                    return Failure("C09/pointer-stream/position", "fields around a Pointer into another stream parsed as %r, without the Pointer %r (a stream was not put back where it was) | %s" % (got, want, where))
            return None
        if kind == "pointer-region":
            # a Pointer inside a length-delimited body (a substream) that does not start at offset 0: a non-negative offset is an
            # absolute offset of the real stream, a negative one counts from the end of the body; either way the body goes on as if
            # the Pointer were not there
            off = extra
            body = C.Struct("a" / C.Byte, "p" / C.Pointer(off, subs[0]), "after" / C.Tell, "b" / C.Byte, "rest" / C.GreedyBytes)
            con = C.Struct("hdr" / C.Byte, "body" / C.Prefixed(C.Byte, body), "tail" / C.Byte, "end" / C.Tell)
            plain = C.Struct("hdr" / C.Byte, "body" / C.Prefixed(C.Byte, C.Struct("a" / C.Byte, "after" / C.Tell, "b" / C.Byte, "rest" / C.GreedyBytes)), "tail" / C.Byte, "end" / C.Tell)
            o = call(con.parse_stream, s)
            s2 = io.BytesIO(data)
            s2.seek(start)
            ref = call(plain.parse_stream, s2)
            if not ref.ok:
                return None
            bstart = start + 2
            bend = bstart + data[start + 1]
            target = off if off >= 0 else bend + off
            if not bstart <= target <= bend:
                return None
            iso_p, iso_end = iso(specs[0], data[:bend], target)     # (the body cannot see beyond its own end)
            if iso_p.ok:
                if not o.ok:
                    return Failure("C09/pointer-region/rejects", "the pointed-to field parses in isolation at %d and the body parses without the Pointer, but with it parse raised %r | %s" % (target, o, where))
                if not lib_eq(o.value.body.p, iso_p.value):
                    return Failure("C09/pointer-region/value", "Pointer(%d) inside a body spanning [%d,%d) -> %s, isolated parse at %d -> %s | %s" % (off, bstart, bend, short(o.value.body.p), target, short(iso_p.value), where))
                got = (o.value.body.a, o.value.body.after, o.value.body.b, o.value.body.rest, o.value.tail, o.value.end, s.tell())
                want = (ref.value.body.a, ref.value.body.after, ref.value.body.b, ref.value.body.rest, ref.value.tail, ref.value.end, s2.tell())
                if got != want:
                    return Failure("C09/pointer-region/position", "fields around a Pointer inside a delimited body parsed as %r, without the Pointer %r | %s" % (got, want, where))
            return None
        if kind in ("select", "optional"):
            if kind == "select" and extra == "kw":
                # keyword spelling: the alternatives are tried in the order written, whatever their names
                con = C.Select(**{"alt%d" % (9 - i): c for i, c in enumerate(subs)})
            else:
                con = C.Select(*subs) if kind == "select" else C.Optional(subs[0])
            o = call(con.parse_stream, s)
            want = None
            for sp in specs:
                ref, end = iso(sp, data, start)
                if ref.ok:
                    want = (ref.value, end)
                    break
                if isinstance(ref.exc, C.ExplicitError):
                    return None
            if want is None and kind == "optional":
                want = (None, start)
            if want is None:
                if o.ok or not isinstance(o.exc, C.SelectError):
                    return Failure("C09/select/no-match", "no alternative parses in isolation but Select -> %r | %s" % (o, where))
                if s.tell() != start:
                    return Failure("C09/select/position-after-failure", "Select failed and left the stream at %d, started at %d | %s" % (s.tell(), start, where))
                return None
            if not (o.ok and lib_eq(o.value, want[0])):
                return Failure("C09/%s/value" % kind, "%s -> %r, first alternative succeeding in isolation -> %s | %s" % (kind, o, short(want[0]), where))
            if s.tell() != want[1]:
                return Failure("C09/%s/position" % kind, "%s left the stream at %d, the successful alternative alone ends at %d | %s" % (kind, s.tell(), want[1], where))
            # build writes only what the chosen alternative writes
            v = want[0]
            wantb = None
            for c in subs:
                b = call(c.build, v)
                if b.ok:
                    wantb = b.value
                    break
            if wantb is None and kind == "optional":
                wantb = b""
            bo = call(con.build, v)
            if wantb is not None and not (bo.ok and bo.value == wantb):
                return Failure("C09/%s/build" % kind, "%s.build(%s) -> %r, first alternative that builds alone gives %s | %s" % (kind, short(v), bo, wantb.hex(), where))
            return None
        if kind in ("grange", "grange-discard"):
            if V.min_size(specs[0]) < 1:
                return None
            discard = kind == "grange-discard"
            con = C.Struct("items" / C.GreedyRange(subs[0], discard=discard), "pos" / C.Tell)
            o = call(con.parse_stream, s)
            vals, pos = [], start
            while True:
                ref, end = iso(specs[0], data, pos)
                if not ref.ok:
                    if isinstance(ref.exc, C.ExplicitError):
                        return None
                    break
                if end == pos:
                    return None
                vals.append(ref.value)
                pos = end
            if discard:
                vals = []      # discard=True: same consumption, empty result
            if not (o.ok and lib_eq(list(o.value["items"]), vals)):
                return Failure("C09/greedyrange/value", "GreedyRange -> %r, successive isolated parses -> %s | %s" % (o, short(vals), where))
            if o.value.pos != pos or s.tell() != pos:
                return Failure("C09/greedyrange/position", "GreedyRange left the stream at %d, the last successful element ends at %d | %s" % (s.tell(), pos, where))
            return None
        if kind == "grange-zerowidth":
            # elements that take no bytes, succeed a number of times and then fail (a table read through Pointer by _index, a
            # look-ahead guarded by a Check on the running index): the result is every element up to the first failure
            form, k = extra
            if form == "pointer":
                el = C.Pointer(this._index * k, C.BytesInteger(k))
                vals = [int.from_bytes(data[i * k:(i + 1) * k], "big") for i in range(len(data) // k)]
            else:
                el = C.Struct("i" / C.Index, "p" / C.Peek(C.Byte), C.Check(this.i < k))
                vals = [dict(i=i, p=(data[start] if start < len(data) else None)) for i in range(k)]
            con = C.Struct("items" / C.GreedyRange(el), "pos" / C.Tell)
            o = call(con.parse_stream, s)
            if not (o.ok and lib_eq(list(o.value["items"]), vals)):
                return Failure("C09/greedyrange/zero-width-elements", "GreedyRange -> %r, the successive elements alone give %s | %s" % (o, short(vals), where))
            if o.value.pos != start or s.tell() != start:
                return Failure("C09/greedyrange/position", "GreedyRange over elements that take no bytes left the stream at %d, started at %d | %s" % (s.tell(), start, where))
            return None
        if kind == "union":
            names = ["u%d" % i for i in range(len(subs))]
            pf, anon = (extra if isinstance(extra, list) else (extra, []))
            if anon == "kw":
                # keyword spelling Union(pf, u9=..., u8=...): members keep the order written (names chosen so that sorting would change it)
                anon = []
                names = ["u%d" % (9 - i) for i in range(len(subs))]
                if isinstance(pf, str):
                    pf = names[int(pf[1:])]
                con = C.Union(pf, **{n: c for n, c in zip(names, subs)})
            else:
                # anonymous members are parsed from the same start as everybody else; they just leave no entry behind
                names = [None if i in anon else n for i, n in enumerate(names)]
                con = C.Union(pf, *[(n / c) if n else c for n, c in zip(names, subs)])
            o = call(con.parse_stream, s)
            refs = [iso(sp, data, start) for sp in specs]
            if all(r.ok for r, _ in refs):
                if not o.ok:
                    return Failure("C09/union/rejects", "every member parses in isolation but Union -> %r | %s" % (o, where))
                for n, (r, _) in zip(names, refs):
                    if n is None:
                        continue
                    if not lib_eq(o.value[n], r.value):
                        return Failure("C09/union/member-value", "Union member %s -> %s, isolated -> %s | %s" % (n, short(o.value[n]), short(r.value), where))
                if pf is None:
                    wantpos = start
                elif isinstance(pf, int):
                    wantpos = refs[pf][1]
                else:
                    wantpos = refs[names.index(pf)][1]
                if s.tell() != wantpos:
                    return Failure("C09/union/position", "Union(parsefrom=%r) left the stream at %d, expected %d | %s" % (pf, s.tell(), wantpos, where))
                # build: only the first member present in the dict is written
                # (documented: the first member that can be built from nothing, or whose key is present, is the one built)
                for n, c, (r, _) in zip(names, subs, refs):
                    if n is None or anon:
                        continue        # (build with anonymous members: which member is written is not specified)
                    first = None
                    for n2, c2, sp2, (r2, _) in zip(names, subs, specs, refs):
                        if G.buildnone(sp2) or n2 == n:
                            first = (c2, r2.value if n2 == n else None)
                            break
                    b = call(first[0].build, first[1])
                    if b.ok:
                        bo = call(con.build, {n: r.value})
                        if not (bo.ok and bo.value == b.value):
                            return Failure("C09/union/build", "Union.build({%s: ...}) -> %r, the first buildable member alone builds %s | %s" % (n, bo, b.value.hex(), where))
            elif o.ok:
                return Failure("C09/union/accepts", "a member fails in isolation (%s) but Union -> %r | %s" % ([short(r) for r, _ in refs], o, where))
            return None
        raise ValueError(kind)
    return oracle


@st.composite
def cases(draw):
    kind = draw(st.sampled_from(["peek", "pointer", "pointer-stream", "pointer-region", "select", "select", "optional", "grange", "grange", "grange-discard", "union"]))
    specs = draw(members(1, 1 if kind in ("peek", "pointer", "pointer-stream", "pointer-region", "optional", "grange", "grange-discard") else 3,
                         foreign=kind in ("select", "optional", "grange", "grange-discard")))
    data, start = draw(inputs(specs))
    extra = None
    if draw(st.integers(0, 19)) == 0:
        kind = "grange-zerowidth"
        extra = [draw(st.sampled_from(["pointer", "check"])), draw(st.integers(1, 4))]
    if kind == "pointer-stream":
        data = data[:start] + bytes([draw(st.integers(0, 9)), draw(st.integers(2, 6))]) + data[start:] + b"\x01\x02\x03\x04\x05\x06\x07"
        extra = draw(st.one_of(st.integers(0, len(data)), st.integers(-len(data), -1)))
    if kind == "pointer-region":
        blen = draw(st.integers(2, 12))
        data = data[:start] + bytes([draw(st.integers(0, 9)), blen]) + (data[start:] + b"\x01\x02\x03\x04\x05\x06\x07\x08\x09\x0a\x0b\x0c")[:blen] + b"\x5a\x5b"
        extra = draw(st.one_of(st.integers(start + 2, start + 2 + blen), st.integers(-blen, -1)))
    if kind == "pointer":
        extra = draw(st.one_of(st.integers(0, max(0, len(data))), st.integers(-max(1, len(data)), -1)))
    if kind == "union":
        extra = draw(st.sampled_from([None, 0, len(specs) - 1, "u0", "u%d" % (len(specs) - 1)]))
        if draw(st.integers(0, 2)) == 0:
            anon = draw(st.lists(st.integers(0, len(specs) - 1), min_size=1, max_size=len(specs), unique=True))
            if isinstance(extra, str) and int(extra[1:]) in anon:
                extra = int(extra[1:])      # (an anonymous member can only be selected by position)
            extra = [extra, sorted(anon)]
        elif draw(st.integers(0, 2)) == 0:
            extra = [extra, "kw"]
    if kind == "select" and draw(st.integers(0, 3)) == 0:
        extra = "kw"
    return [kind, specs, extra, data, start]


def campaign_random(ctx):
    ctx.search(cases(), oracle_factory(ctx), ctx.budget(32000, 400000))
campaign_random.shards = (10, 16)


def campaign_corruptions(ctx):
    """every byte position of valid encodings of every pool alternative corrupted, for Select over rotations of the pool"""
    orc = oracle_factory(ctx)
    n = len(POOL)
    triples = [[POOL[i], POOL[(i + 5) % n], POOL[(i + 11) % n]] for i in range(n)]
    samples = {0: b"\x00\x05", 2: b"\x01\x02\x03", 3: b"\x81\x01", 5: b"\x03abc", 6: b"hi\x00", 7: b"AB", 8: b"\x07", 9: b"\x02", 10: b"xyz", 12: b"\x01\x34\x12",
               13: b"\x02pq", 14: b"\x09\xff\x00\x01", 15: b"\x05\x06", 16: b"\x02ab", 17: b"\x01", 18: b"\xc8", 19: b"ab\x00\x00", 21: b"\x04\x00\x00", 22: b"\x02\x02ok\x00"}
    for ti, specs in enumerate(triples):
        if ti % ctx.nshards != ctx.shard:
            continue
        for k, sp in enumerate(specs):
            enc = samples.get(POOL.index(sp))
            if enc is None:
                continue
            for pos in range(len(enc)):
                for x in (1, 0x80, 0xff):
                    data = b"\xaa" + enc[:pos] + bytes([enc[pos] ^ x]) + enc[pos + 1:] + b"\x01"
                    for kind, ss, extra in (("select", specs, None), ("grange", [sp], None), ("grange-discard", [sp], None), ("optional", [sp], None), ("peek", [sp], None), ("union", specs, 0)):
                        ctx.check_case([kind, ss, extra, data, 1], orc)
            for cut in range(len(enc)):
                ctx.check_case(["select", specs, None, b"\xaa" + enc[:cut], 1], orc)
                ctx.check_case(["grange", [sp], None, b"\xaa" + enc + enc[:cut], 1], orc)
    ctx.exhaustive("every byte position x 3 corruptions and every truncation of sample encodings of the pool alternatives, through Select/GreedyRange/Optional/Peek/Union")
campaign_corruptions.shards = (2, 8)


CAMPAIGNS = {"random": campaign_random, "corruptions": campaign_corruptions}


def replay(campaign, case):
    class _C:
        def record(self, *a, **k): pass
    return oracle_factory(_C())(case)
