"""C17 — constructs are stateless: results do not depend on call history or entry point."""
import io
import json
import os
import pickle
import re
import struct
import subprocess
import sys
import tempfile
import threading

from hypothesis import strategies as st

import construct as C

from pbt import grammar as G
from pbt import refmodel as R
from pbt import values as V
from pbt.mutate import mutated
from pbt.harness import Failure, call, jenc, short
from pbt.props.c02 import lib_eq

RULE = ("a pool of constructs realised from generated specs that share sub-construct objects (library singletons; one realised "
        "instance reused inside a Struct, a Sequence and an Array parent) plus their compiled forms; histories of 10-40 interleaved "
        "parse / build / sizeof / compile calls on valid, truncated, mutated and ill-typed inputs; oracle: every outcome (value or "
        "exception class) equals the outcome of the same call on a freshly realised, never used copy; a structural snapshot of "
        "vars() of every pooled construct is unchanged at the end; entry points agree (parse on bytes/bytearray/memoryview, "
        "parse_stream at offsets 0..3, parse_file; build, build_stream at offsets, build_file); the same call list executed by 8 "
        "barrier-started threads (switch interval 1e-6) gives the sequential results. non-trivial = history contains a failing "
        "call followed by a successful one on a construct sharing members, or the threaded variant")
ASSUMPTIONS = ["Rebuffered.stream2 and Debugger.retval are documented mutable exceptions and not generated",
               "the thread clause can expose shared mutable attributes but cannot rule out rare interleavings (the harness does not own the scheduler)",
               "position-observing constructs (Tell/Pointer/RawCopy) are outside the entry-point clause (covered by C08/C14)"]

FRAG = V.SEQUENTIAL - {"bomstr"}


def snapshot(con, seen=None, depth=0):
    """structural snapshot of a construct: scalars by value, sub-constructs recursively, callables by identity"""
    seen = seen if seen is not None else {}
    if depth > 40:
        return ("too-deep",)
    if id(con) in seen:
        return ("ref", seen[id(con)])
    seen[id(con)] = len(seen)
    out = [type(con).__name__]
    try:
        items = sorted(vars(con).items())
    except TypeError:
        return ("opaque", type(con).__name__)
    for k, v in items:
        out.append((k, _snap_value(v, seen, depth)))
    return tuple(out)


def _snap_value(v, seen, depth):
    if isinstance(v, C.Construct):
        return snapshot(v, seen, depth + 1)
    if isinstance(v, (list, tuple, dict)):
        if id(v) in seen:
            return ("ref", seen[id(v)])
        seen[id(v)] = len(seen)
        if depth > 40:
            return ("too-deep",)
        if isinstance(v, dict):
            return tuple(sorted((repr(k), _snap_value(x, seen, depth + 1)) for k, x in dict.items(v)))
        return tuple(_snap_value(x, seen, depth + 1) for x in v)
    if isinstance(v, (int, float, str, bytes, bool, type(None))):
        return (type(v).__name__, repr(v))
    if callable(v):
        return ("callable", id(v))
    return ("obj", type(v).__name__, repr(v)[:80])


def outcome_eq(a, b):
    if a.ok != b.ok:
        return False
    if a.ok:
        return lib_eq(a.value, b.value)
    return type(a.exc) is type(b.exc)


def make_pool(specs):
    """pool entries: (label, construct, fresh factory)"""
    pool = []
    for i, (spec, params) in enumerate(specs):
        inst = G.realise(spec)
        pool.append(("spec%d" % i, inst, (lambda spec=spec: G.realise(spec)), params, "plain"))
        # the same instance reused by three parents (sharing)
        pool.append(("struct-of-%d" % i, C.Struct("a" / inst, "b" / C.Byte), (lambda spec=spec: C.Struct("a" / G.realise(spec), "b" / C.Byte)), params, "struct"))
        pool.append(("array-of-%d" % i, C.Array(2, inst), (lambda spec=spec: C.Array(2, G.realise(spec))), params, "array"))
        pool.append(("seq-of-%d" % i, C.Sequence(inst, inst), (lambda spec=spec: C.Sequence(G.realise(spec), G.realise(spec))), params, "seq"))
    return pool


def adapt(kind, payload, op):
    """payload for the plain spec -> payload for the parent shape"""
    if op == "parse":
        if kind == "struct":
            return payload + b"\x07"
        if kind in ("array", "seq"):
            return payload + payload
        return payload
    if kind == "struct":
        return dict(a=payload, b=7)
    if kind in ("array", "seq"):
        return [payload, payload]
    return payload


def run_call(con, op, payload, params):
    if op == "parse":
        return call(con.parse, payload, **params)
    if op == "build":
        return call(con.build, payload, **params)
    if op == "sizeof":
        return call(con.sizeof, **(params if payload else {}))
    raise ValueError(op)


def history_oracle(ctx):
    def oracle(case):
        specs, calls, threaded = case
        pool = make_pool([(s, p) for s, p, _ in specs])
        before = [snapshot(con) for _, con, _, _, _ in pool]
        compiled = {}
        results = []
        had_failure = False
        nontriv = False
        plan = []
        for (idx, op, which, payload) in calls:
            label, con, fresh, params, kind = pool[idx % len(pool)]
            base_spec_index = (idx % len(pool)) // 4
            if op == "compile":
                o = call(con.compile)
                if o.ok:
                    compiled[idx % len(pool)] = o.value
                continue
            target = con
            use_compiled = which == "compiled" and (idx % len(pool)) in compiled
            if use_compiled:
                target = compiled[idx % len(pool)]
            pl = payload if op == "sizeof" else adapt(kind, payload, op)
            plan.append((target, op, pl, params, fresh, label, use_compiled))
        if threaded:
            # sequential reference first (on the shared pool), then the same plan from 8 threads
            seq = [run_call(t, op, pl, params) for t, op, pl, params, _, _, _ in plan]
            out = [None] * len(plan)
            barrier = threading.Barrier(8)
            old = sys.getswitchinterval()
            sys.setswitchinterval(1e-6)

            def worker(k):
                barrier.wait()
                for rep in range(3):
                    for i in range(k, len(plan), 8):
                        t, op, pl, params, _, _, _ = plan[i]
                        r = run_call(t, op, pl, params)
                        if out[i] is None or outcome_eq(out[i], seq[i]):
                            out[i] = r      # keep the first deviating result, otherwise the latest one
            threads = [threading.Thread(target=worker, args=(k,)) for k in range(8)]
            try:
                for t in threads:
                    t.start()
                for t in threads:
                    t.join()
            finally:
                sys.setswitchinterval(old)
            ctx.record([specs, calls, True], True, ["threaded", "calls=%d" % min(len(plan) // 10 * 10, 40)])
            for i, (t, op, pl, params, _, label, uc) in enumerate(plan):
                if out[i] is not None and not outcome_eq(out[i], seq[i]):
                    return Failure("C17/threads/result-differs", "%s.%s(%s) gave %r from a worker thread, %r sequentially | specs=%s" % (label, op, short(pl), out[i], seq[i], short(specs, 400)))
        else:
            for t, op, pl, params, fresh, label, uc in plan:
                pl_before = _snap_value(pl, {}, 0) if op == "build" else None
                got = run_call(t, op, pl, params)
                if op == "build" and _snap_value(pl, {}, 0) != pl_before:
                    return Failure("C17/build-mutates-its-input", "%s.build(%s) changed the object it was given (was %s) | specs=%s" % (label, short(pl), short(pl_before, 200), short(specs, 400)))
                f = call(fresh)
                if not f.ok:
                    continue
                ref_con = f.value
                if uc:
                    c2 = call(ref_con.compile)
                    if not c2.ok:
                        continue
                    ref_con = c2.value
                ref = run_call(ref_con, op, pl, params)
                if not got.ok and had_failure is False:
                    had_failure = True
                elif got.ok and had_failure:
                    nontriv = True
                if not outcome_eq(got, ref):
                    return Failure("C17/history/%s-depends-on-history" % op, "%s%s.%s(%s) -> %r after %d earlier calls, a never-used copy gives %r | specs=%s calls=%s" % (
                        label, " (compiled)" if uc else "", op, short(pl), got, len(results), ref, short(specs, 400), short(calls, 400)))
                results.append(got)
            ctx.record([specs, calls, False], nontriv, ["history", "calls=%d" % min(len(plan) // 10 * 10, 40)])
        after = [snapshot(con) for _, con, _, _, _ in pool]
        for (label, con, _, _, _), a, b in zip(pool, before, after):
            if a != b:
                return Failure("C17/mutated-by-use", "construct %s was mutated by use: vars() before %s, after %s | specs=%s" % (label, short(a, 300), short(b, 300), short(specs, 300)))
        return None
    return oracle


@st.composite
def history_cases(draw, threaded=False):
    nspecs = draw(st.integers(1, 3))
    specs = []
    payloads = []
    for _ in range(nspecs):
        if draw(st.integers(0, 7)) == 0:
            # a construct that owns a mutable object (the Container given as default of a RawCopy region)
            spec = ["defaultrc", draw(st.sampled_from([["int", 2, False, "b", "alias"], ["bytes", 2], ["struct", [["a", ["int", 1, False, "b", "alias"]]]]])), None]
            spec[2] = {"int": 5, "bytes": b"ab", "struct": {"a": 1}}[spec[1][0]]
            specs.append([spec, {}, None])
            payloads.append((None, G.realise(spec).build(None), True))
            continue
        spec, params, value = draw(V.cases(frag=FRAG, depth=2))
        valid = True
        try:
            data = R.ref_build(spec, value, params)
        except (R.Reject, R.ForeignError):
            data = draw(st.binary(max_size=10))
            valid = False
        specs.append([spec, params, None])
        payloads.append((value, data, valid))
    calls = []
    for _ in range(draw(st.integers(10, 40 if not threaded else 24))):
        idx = draw(st.integers(0, nspecs * 4 - 1))
        value, data, valid = payloads[idx // 4]
        op = draw(st.sampled_from(["parse", "parse", "build", "build", "sizeof", "compile"]))
        which = draw(st.sampled_from(["plain", "plain", "compiled"])) if valid else "plain"
        if op == "parse":
            # generated code skips checks (documented), e.g. it can spin through a huge corrupted count: compiled forms get valid input only
            payload = draw(st.sampled_from(["valid", "valid", "truncated", "mutated", "empty"] if which == "plain" else ["valid"]))
            payload = {"valid": data, "truncated": data[:max(0, len(data) - 1)], "empty": b""}.get(payload) if payload != "mutated" else draw(mutated(data, max_ops=1))
        elif op == "build":
            payload = draw(st.sampled_from(["valid", "valid", "ill", "ill-leaf"]))
            if payload == "ill-leaf":
                from pbt.props import c03
                spec0 = specs[idx // 4][0]
                paths = list(c03._leaf_paths(spec0, value, ()))
                if paths:
                    path, leafspec = draw(st.sampled_from(paths))
                    payload = c03._set(value, path, draw(c03._invalid_value(leafspec, c03._get(value, path))))
                else:
                    payload = value
            else:
                payload = value if payload == "valid" else draw(st.sampled_from([None, "x", [], {}, -1, 2 ** 200, b"\xff"]))
        elif op == "sizeof":
            payload = draw(st.booleans())
        else:
            payload = None
        calls.append([idx, op, which, payload])
    return [specs, calls, threaded]


def campaign_history(ctx):
    ctx.search(history_cases(), history_oracle(ctx), ctx.budget(3600, 60000))
campaign_history.shards = (4, 16)


def campaign_threads(ctx):
    ctx.search(history_cases(threaded=True), history_oracle(ctx), ctx.budget(450, 6000), shrink=False)
campaign_threads.shards = (2, 8)


# ---------------------------------------------------------------------------------------------
# entry points
# ---------------------------------------------------------------------------------------------
def entry_oracle(ctx):
    def oracle(case):
        spec, params, value, data, start = case[:5]
        parse_only = len(case) > 5 and case[5]      # (relative seeks while BUILDING act on the caller's stream: a file refuses what BytesIO clamps)
        con = G.realise(spec)
        ctx.record(case, True, ["entry/start=%d" % start] + (["entry/relative-seeks"] if parse_only else []))
        where = "spec=%s params=%s" % (short(spec, 400), params)
        base = call(con.parse, data, **params)
        alts = {"bytearray": call(con.parse, bytearray(data), **params), "memoryview": call(con.parse, memoryview(data), **params)}
        s = io.BytesIO(b"\x13" * start + data)
        s.seek(start)
        alts["parse_stream@%d" % start] = call(con.parse_stream, s, **params)
        d = tempfile.mkdtemp(prefix="c17_")
        try:
            fn = os.path.join(d, "in.bin")
            with open(fn, "wb") as f:
                f.write(data)
            alts["parse_file"] = call(con.parse_file, fn, **params)
            for name, o in alts.items():
                if not outcome_eq(o, base):
                    return Failure("C17/entry/parse-%s" % name.split("@")[0], "parse(bytes) -> %r, %s -> %r on %s | %s" % (base, name, o, data.hex(), where))
            if parse_only:
                return None
            b = call(con.build, value, **params)
            s2 = io.BytesIO(b"\x13" * start)
            s2.seek(start)
            bs = call(con.build_stream, value, s2, **params)
            fn2 = os.path.join(d, "out.bin")
            with open(fn2, "wb") as f:
                f.write(b"previous, longer content of the same file " * 3)       # (what a file held before is not part of the result)
            bf = call(con.build_file, value, fn2, **params)
            if b.ok:
                if not bs.ok or s2.getvalue()[start:] != b.value:
                    return Failure("C17/entry/build_stream", "build -> %s, build_stream at offset %d -> %r / %s | value=%s %s" % (b.value.hex(), start, bs, s2.getvalue()[start:].hex(), short(value), where))
                got = open(fn2, "rb").read() if os.path.exists(fn2) else None
                if not bf.ok or got != b.value:
                    return Failure("C17/entry/build_file", "build -> %s, build_file -> %r / %r | value=%s %s" % (b.value.hex(), bf, got, short(value), where))
            else:
                if bs.ok or type(bs.exc) is not type(b.exc):
                    return Failure("C17/entry/build_stream", "build raised %r, build_stream -> %r | value=%s %s" % (b, bs, short(value), where))
                if bf.ok or type(bf.exc) is not type(b.exc):
                    return Failure("C17/entry/build_file", "build raised %r, build_file -> %r | value=%s %s" % (b, bf, short(value), where))
        finally:
            for x in os.listdir(d):
                os.remove(os.path.join(d, x))
            os.rmdir(d)
        return None
    return oracle


B1 = ["int", 1, False, "b", "alias"]


@st.composite
def relseek_cases(draw):
    """members that move RELATIVE to where the stream stands (a terminator left unconsumed, Seek(n, 1)) inside a delimited region
    that starts somewhere behind a header: positions inside such a region are kept in the coordinates of the outer stream"""
    members = []
    for i in range(draw(st.integers(2, 5))):
        o = draw(st.sampled_from(["int", "int", "nt", "seek", "bytes"]))
        if o == "int":
            members.append(["i%d" % i, B1])
        elif o == "bytes":
            members.append(["b%d" % i, ["bytes", draw(st.integers(0, 2))]])
        elif o == "seek":
            members.append([None, ["seek", draw(st.sampled_from([-2, -1, 0, 1, 2])), 1]])
        else:
            members.append(["n%d" % i, ["nullterm", ["gbytes"], draw(st.sampled_from([b"=", b"\x00", b";;"])), draw(st.booleans()), False, draw(st.booleans())]])
    members.append(["rest", ["gbytes"]])
    body = draw(st.binary(min_size=0, max_size=10))
    if draw(st.booleans()):
        body = body[:len(body) // 2] + draw(st.sampled_from([b"=", b"\x00", b";;"])) + body[len(body) // 2:]
    region = draw(st.sampled_from(["prefixed", "fixedsized", "nullstrip", "xor", "nullterm"]))
    inner = ["struct", members]
    if region == "prefixed":
        spec, data = ["prefixed", B1, inner, False], bytes([len(body)]) + body
    elif region == "fixedsized":
        spec, data = ["fixedsized", len(body), inner], body
    elif region == "nullstrip":
        spec, data = ["nullstrip", inner, b"\xee"], body + b"\xee" * draw(st.integers(0, 2))
    elif region == "xor":
        spec, data = ["xor", draw(st.sampled_from([0, 0x5a])), inner], body
    else:
        spec, data = ["nullterm", inner, b"\xfe", False, True, True], body.replace(b"\xfe", b"\xfd") + b"\xfe"
    nhead = draw(st.integers(0, 2))
    if nhead:
        spec = ["struct", [["h%d" % j, B1] for j in range(nhead)] + [["body", spec]]]
        data = draw(st.binary(min_size=nhead, max_size=nhead)) + data
    return [spec, {}, None, data + draw(st.binary(max_size=2)), draw(st.integers(0, 3)), True]


@st.composite
def entry_cases(draw):
    if draw(st.integers(0, 7)) == 0:
        return draw(relseek_cases())
    spec, params, value = draw(V.cases(frag=FRAG, depth=3, ntflags=True))
    try:
        data = R.ref_build(spec, value, params)
    except (R.Reject, R.ForeignError):
        data = draw(st.binary(max_size=12))
    if draw(st.integers(0, 3)) == 0:
        data = draw(mutated(data, max_ops=1))
    if draw(st.integers(0, 5)) == 0:
        value = draw(st.sampled_from([None, "x", [], -1]))
    return [spec, params, value, data, draw(st.integers(0, 3))]


def campaign_entry(ctx):
    ctx.search(entry_cases(), entry_oracle(ctx), ctx.budget(7500, 100000))
campaign_entry.shards = (4, 16)


# ---------------------------------------------------------------------------------------------
# the library's module-level singletons are not mutated by heavy use
# ---------------------------------------------------------------------------------------------
def campaign_singletons(ctx):
    names = [n for n in dir(C) if isinstance(getattr(C, n), C.Construct)]
    before = {n: snapshot(getattr(C, n)) for n in names}

    def oracle(case):
        spec, params, value, data = case
        con = G.realise(spec)
        ctx.record(case, True, ["singletons/use"])
        call(con.build, value, **params)
        p = call(con.parse, data, **params)
        call(con.sizeof, **params)
        if p.ok:    # generated code omits checks: on input the interpreter rejects it may run for as long as a corrupted count says
            call(lambda: con.compile().parse(data, **params))
        b = call(con.build, value, **params)
        if b.ok:
            call(lambda: con.compile().parse(b.value, **params))
        for n in names:
            if snapshot(getattr(C, n)) != before[n]:
                return Failure("C17/singleton-mutated/%s" % n, "module singleton construct.%s changed after use of %s" % (n, short(spec, 300)))
        return None

    @st.composite
    def strat(draw):
        spec, params, value = draw(V.cases(frag=FRAG, depth=2))
        return [spec, params, value, draw(st.binary(max_size=12))]
    ctx.search(strat(), oracle, ctx.budget(1800, 20000))
    ctx.note("singletons checked", len(names))
campaign_singletons.shards = (1, 4)


# ---------------------------------------------------------------------------------------------
# process-global state (class attributes, module caches): a call's result in a history == its result in a pristine process
# ---------------------------------------------------------------------------------------------
_HEX = re.compile(r"0x[0-9a-fA-F]+")


def digest(o):
    if o.ok:
        return ("ok", _HEX.sub("0x?", repr(o.value)))
    return ("exc", type(o.exc).__name__)


def run_plan(req):
    """runs inside a freshly forked child of the pristine zygote (pbt/zygote.py)"""
    cons = [G.realise(spec) for spec, _ in req["specs"]]
    out = {}
    for ci in req["order"]:
        idx, op, payload = req["calls"][ci]
        out[ci] = digest(run_call(cons[idx], op, payload, req["specs"][idx][1]))
    return out


class Zygote:
    def __init__(self):
        env = dict(os.environ, PYTHONHASHSEED="0", PYTHONDONTWRITEBYTECODE="1")
        self.p = subprocess.Popen([sys.executable, "-m", "pbt.zygote"], stdin=subprocess.PIPE, stdout=subprocess.PIPE,
                                  cwd=os.path.dirname(os.path.dirname(os.path.dirname(os.path.abspath(__file__)))), env=env)

    def ask(self, req):
        data = pickle.dumps(req)
        self.p.stdin.write(struct.pack(">I", len(data)) + data)
        self.p.stdin.flush()
        hdr = self.p.stdout.read(4)
        if len(hdr) < 4:
            raise RuntimeError("zygote died (exit %r)" % self.p.poll())
        return pickle.loads(self.p.stdout.read(struct.unpack(">I", hdr)[0]))

    def close(self):
        try:
            self.p.stdin.close()
            self.p.wait(timeout=10)
        except Exception:
            self.p.kill()


FAMILIES = ["rol", "xor", "bits", "bytesint", "pstr", "cstr", "aligned", "padded", "enum", "flagsenum", "compressed", "generated"]


@st.composite
def family_member(draw, fam):
    """one construct of a parameterised family; parameters come from small ranges so that members share SOME of them"""
    B1 = ["int", 1, False, "b", "alias"]
    if fam == "rol":
        # small ranges on purpose: members of one case must often share the amount and differ in the group (or vice versa)
        return ["rol", draw(st.one_of(st.integers(-9, 9), st.integers(-20, 20))), draw(st.integers(1, 4)), ["gbytes"]]
    if fam == "xor":
        key = draw(st.one_of(st.integers(0, 255), st.binary(min_size=1, max_size=4)))
        return ["xor", key, ["gbytes"]]
    if fam == "bits":
        return ["bitwise", ["bits", 8 * draw(st.integers(1, 4)), draw(st.booleans()), draw(st.booleans())]]
    if fam == "bytesint":
        return ["int", draw(st.integers(1, 6)), draw(st.booleans()), draw(st.sampled_from(["b", "l"])), "bi"]
    if fam == "pstr":
        return ["pstr", draw(st.integers(2, 8)), draw(st.sampled_from(["ascii", "utf8", "utf_16_le", "utf_32_be"]))]
    if fam == "cstr":
        return ["cstr", draw(st.sampled_from(["ascii", "utf8", "utf_16_le", "utf_16_be", "utf_32_le"]))]
    if fam == "aligned":
        return ["aligned", draw(st.integers(2, 6)), ["bytes", draw(st.integers(0, 5))], draw(st.sampled_from([b"\x00", b"\xee"]))]
    if fam == "padded":
        return ["padded", draw(st.integers(4, 8)), ["varint"], draw(st.sampled_from([b"\x00", b"p"]))]
    if fam == "enum":
        vals = draw(st.lists(st.integers(0, 6), min_size=1, max_size=3, unique=True))
        return ["enum", B1, [[l, v] for l, v in zip(V.LABELS, vals)], "kw"]
    if fam == "flagsenum":
        vals = draw(st.lists(st.sampled_from([1, 2, 4, 8, 3, 12]), min_size=1, max_size=3, unique=True))
        return ["flagsenum", B1, [[l, v] for l, v in zip(V.LABELS, vals)], "kw"]
    if fam == "compressed":
        return ["prefixed", B1, ["compressed", ["gbytes"], draw(st.sampled_from(["zlib", "bzip2", "lzma"])), draw(st.sampled_from([None, 1, 9]))], False]      # (gzip stamps the wall clock into its header)
    raise ValueError(fam)


@st.composite
def globalstate_cases(draw):
    fam = draw(st.sampled_from(FAMILIES + ["rol", "bits", "bytesint"]))
    specs = []
    if fam == "generated":
        for _ in range(draw(st.integers(2, 3))):
            spec, params, value = draw(V.cases(frag=FRAG, depth=2))
            specs.append([spec, params, value])
    else:
        for _ in range(draw(st.integers(2, 5))):
            spec = draw(family_member(fam))
            specs.append([spec, {}, None])
    calls = []
    for i, (spec, params, value) in enumerate(specs):
        if value is None and fam != "generated":
            value = V.gen_value(draw, spec, R.top_scope(params, "build"))
            specs[i][2] = value
        try:
            data = R.ref_build(spec, value, params)
        except (R.Reject, R.ForeignError):
            data = None
        for _ in range(draw(st.integers(1, 2))):
            calls.append([i, "build", value])
        for _ in range(draw(st.integers(1, 2))):
            payload = data if data is not None and draw(st.integers(0, 3)) else draw(st.sampled_from([b"", bytes(range(1, 13)), bytes(range(0x80, 0x80 + 24)), bytes(60), b"\x12\x34\x56\x78" * 6]))
            calls.append([i, "parse", payload])
    order = draw(st.permutations(list(range(len(calls)))))
    return [fam, [[s, p] for s, p, _ in specs], calls, list(order)]


def globalstate_oracle(ctx, zyg):
    def oracle(case):
        fam, specs, calls, order = case
        req = dict(specs=[(s, p) for s, p in specs], calls=[tuple(c) for c in calls], order=list(order))
        together = zyg.ask(req)
        if not isinstance(together, dict):
            ctx.tally("globalstate/inconclusive-%s" % together[0])
            return None
        distinct = len({json.dumps(jenc(s), sort_keys=True) for s, _ in specs})
        ctx.record(case, distinct > 1, ["globalstate/" + fam, "globalstate/calls=%d" % len(calls)])
        for pos, ci in enumerate(order):
            if pos == 0:
                continue        # the first call of the history ran in a pristine process already
            alone = zyg.ask(dict(req, order=[ci]))
            if not isinstance(alone, dict):
                ctx.tally("globalstate/inconclusive-%s" % alone[0])
                continue
            if alone[ci] != together[ci]:
                idx, op, payload = calls[ci]
                return Failure("C17/global-state/%s-depends-on-history" % op,
                               "%s(%s) on %s gives %s in a process that never used the library, but %s after %d earlier calls on other constructs | specs=%s order=%s" % (
                                   op, short(payload, 80), short(specs[idx][0], 200), short(alone[ci], 200), short(together[ci], 200), pos, short([s for s, _ in specs], 500), order))
        return None
    return oracle


def campaign_globalstate(ctx):
    zyg = Zygote()
    try:
        ctx.search(globalstate_cases(), globalstate_oracle(ctx, zyg), ctx.budget(600, 12000), name="globalstate")
    finally:
        zyg.close()
campaign_globalstate.shards = (4, 16)


CAMPAIGNS = {"history": campaign_history, "threads": campaign_threads, "entry": campaign_entry, "singletons": campaign_singletons,
             "globalstate": campaign_globalstate}


def replay(campaign, case):
    class _C:
        def record(self, *a, **k): pass
        def note(self, *a, **k): pass
    c = _C()
    if campaign in ("history", "threads"):
        return history_oracle(c)(case)
    if campaign == "entry":
        return entry_oracle(c)(case)
    if campaign == "globalstate":
        c.tally = lambda *a, **k: None
        zyg = Zygote()
        try:
            return globalstate_oracle(c, zyg)(case)
        finally:
            zyg.close()
    return None
