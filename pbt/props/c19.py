"""C19 — KSY export describes the same byte layout the construct parses."""
import json

from hypothesis import strategies as st

import construct as C

from pbt import exprs as X
from pbt import grammar as G
from pbt import refmodel as R
from pbt import values as V
from pbt import kaitai_mini as K
from pbt.harness import Failure, call, short

RULE = ("constructs from the exportable fragment (integers in every spelling, floats, VarInt, Bytes/GreedyBytes, the four string "
        "macros, Flag, Enum, FlagsEnum, nested Struct/Sequence, Array/GreedyRange/RepeatUntil, Const, Rebuild/Default, FocusedSeq, "
        "If/IfThenElse, Padding/Padded, FixedSized, Prefixed/PrefixedArray, NullTerminated/NullStripped, BitStruct members, Pointer, "
        "Pass, Hex, docs) x canonical encodings of generated values; export_ksy() itself is called (through a JSON-emitting stand-in "
        "for ruamel.yaml); (a) structural: at every nesting level the emitted seq lists the named members in declaration order "
        "under the same identifiers; (b) semantic: a small Kaitai interpreter (pbt/kaitai_mini.py) runs the schema on each "
        "canonical encoding and every named member must get the same byte extent and scalar value as the reference parse. "
        "non-trivial = spec has >= 2 named members or a nested type; constructs for which export raises 'does not implement KSY "
        "export' are outside the fragment (counted)")
ASSUMPTIONS = ["ruamel.yaml is not installed: stubs/ruamel/yaml.py provides YAML().dump emitting JSON (a YAML subset); expression objects "
               "passed to the dumper are rendered with repr", "Kaitai semantics per its documentation, restricted to the keys the exporter "
               "emits; 'u1be' style one-byte spellings are accepted as the exporter's dialect",
               "known exporter defects are bucketed by emitting class + aspect, listed in known_findings.txt and excluded from the main "
               "generator (a dedicated campaign keeps reproducing each)"]

INTERNAL_IDS = {"lengthfield", "data", "countfield", "thenvalue", "elsesubcon", "x"}
B1 = ["int", 1, False, "b", "alias"]

# kinds whose export is a recorded known finding: kept out of the main generator, exercised by campaign_known
KNOWN_KINDS = {"enum", "flagsenum", "nullterm", "pointer"}


def export(con):
    o = call(con.export_ksy)
    if not o.ok:
        return o, None
    try:
        return o, json.loads(o.value)
    except Exception as e:
        return o, None


def unwrap(v):
    """values of exporter-internal helper types: {lengthfield, data} / {countfield, data} / {x} / {thenvalue|elsesubcon}"""
    while isinstance(v, dict) and v and set(v) <= INTERNAL_IDS:
        if "data" in v:
            v = v["data"]
        elif "x" in v:
            v = v["x"]
        elif "thenvalue" in v:
            v = v["thenvalue"]
        elif "elsesubcon" in v:
            v = v["elsesubcon"]
        else:
            break
    if isinstance(v, dict):
        return {k: unwrap(x) for k, x in v.items()}
    if isinstance(v, list):
        if len(v) == 1 and not isinstance(v[0], (dict, list)):
            pass
        return [unwrap(x) for x in v]
    return v


def flatten(fields, path=()):
    """document-order list of (path of user-visible ids, start, end, value) for every field carrying a user-visible id"""
    out = []
    for f in fields:
        p = path + ((f.id,) if f.id is not None and f.id not in INTERNAL_IDS else ())
        if f.id is not None and f.id not in INTERNAL_IDS:
            out.append((p, f.start, f.end, unwrap(f.value)))
        if f.children:
            kids = f.children
            if kids and isinstance(kids[0], K.Field) and all(k.id is None for k in kids) and any(k.children for k in kids):
                for k in kids:       # repetition of user types
                    out += flatten(k.children or [], p)
            else:
                out += flatten(kids, p)
    return out


def scalar_eq(kv, rv):
    if isinstance(rv, float):
        return isinstance(kv, float) and (kv == rv or (kv != kv and rv != rv))
    if isinstance(rv, bool):
        return kv == rv
    if isinstance(rv, (int, str, bytes)):
        return kv == rv and type(kv) is type(rv)
    if rv is None:
        return kv is None or kv == b"" or kv == []
    if isinstance(rv, list):
        return isinstance(kv, list) and len(kv) == len(rv) and all(scalar_eq(a, b) for a, b in zip(kv, rv))
    if isinstance(rv, dict):
        return isinstance(kv, dict) and all(k in kv and scalar_eq(kv[k], v) for k, v in rv.items() if not k.startswith("_"))
    return kv == rv


def member_ids(spec):
    """declared named members at the top level of a struct-like spec"""
    k = spec[0]
    if k in ("struct", "seq", "bitstruct"):
        return [n for n, _ in spec[1]]
    if k == "fseq":
        return [n for n, _ in spec[2]]
    return None


def structural(spec, seq, types, where, depth=0):
    """seq must list exactly the declared members, in order, under the same identifiers (recursively through user types)"""
    ids = member_ids(spec)
    if ids is None:
        return None
    got = [e.get("id") for e in seq]
    if got != ids:
        return Failure("C19/%s/seq-members" % spec[0], "declared members %r, schema seq lists %r | %s" % (ids, got, where))
    members = spec[1] if spec[0] != "fseq" else spec[2]
    for (name, sub), entry in zip(members, seq):
        inner = sub
        while inner[0] in ("docs", "hex", "hexdump", "rebuild", "default"):
            inner = inner[1]
        if inner[0] in ("struct", "seq", "fseq"):
            t = entry.get("type")
            if t not in types:
                return Failure("C19/%s/nested-type-missing" % inner[0], "member %r is a nested %s but its schema entry is %r | %s" % (name, inner[0], entry, where))
            f = structural(inner, types[t].get("seq") or [], types, where, depth + 1)
            if f:
                return f
        if inner[0] == "docs" and entry.get("doc") != inner[2]:
            pass
    return None


def known_feature(spec):
    """first construct in the spec whose export has a recorded defect (None if there is none)"""
    for f in known_features(spec):
        return f
    return None


def known_features(spec):
    for s_ in G.walk(spec):
        k = s_[0]
        if k == "prefixed" and s_[3]:
            yield "prefixed-includelength-ignored"
        if k == "cstr" and G.ENC_UNIT.get(s_[1], 1) > 1:
            yield "cstring-multibyte-terminator"
        if k == "enum":
            yield "enum-without-integer-type"
        if k == "flagsenum":
            yield "flagsenum-bit-order"
        if k == "nullterm":
            yield "nullterminated-size-eos"
        if k == "pointer" and G.is_expr(s_[1]):
            yield "pointer-instance"        # (the recorded defect concerns offsets given by expressions; constant offsets export fine)
        if k == "ite":
            yield "ifthenelse-condition-scope"
        if k == "if":
            sub = s_[2]
            while sub[0] in ("docs", "hex", "hexdump", "rebuild", "default"):
                sub = sub[1]
            if sub[0] == "if":
                # If is IfThenElse(cond, x, Pass): a conditional guarded by another one is exported through the same helper type
                yield "ifthenelse-condition-scope"


def oracle_factory(ctx):
    inner = _oracle_factory(ctx)

    def oracle(case):
        f = inner(case)
        if f is not None and "export-not-repeatable" in f.bucket:
            return f        # (none of the recorded defects is of this kind)
        if f is not None:
            feat = known_feature(case[0])
            if feat == "enum-without-integer-type" and "enum-without-integer-type" in f.bucket:
                # the recorded defect is there (no integer type). Grant the type the construct uses and look at the rest of what
                # the schema says about the enum - its table - so that a different enum defect is not hidden behind the known one
                f2 = inner(case, enum_base="u1")
                if f2 is not None and f2.bucket == "C19/enum/label-table":
                    return f2
            if set(known_features(case[0])) == {"ifthenelse-condition-scope"}:
                # the recorded defect is a name out of scope in the helper type. Grant helper types the names of the sequence
                # they are used in and look at the rest: which conditions the schema states, and the layout they give
                f2 = inner(case, scope_fallback=True)
                if f2 is not None:
                    return Failure(f2.bucket.replace("C19/", "C19/scope-granted/", 1), f2.detail)
            if feat is not None:
                # specs containing a construct with a recorded exporter defect only occur in the `known` campaign (tiny specs);
                # whatever fails there is attributed to that construct
                return Failure("C19/known/" + feat, f.detail)
        return f
    return oracle


def _oracle_factory(ctx):
    def oracle(case, enum_base=None, scope_fallback=False):
        spec, params, value = case
        con = G.realise(spec)
        o, doc = export(con)
        fk = _first_kind(spec)
        where = "spec=%s params=%s" % (short(spec, 600), params)
        if not o.ok:
            if isinstance(o.exc, C.ConstructError) and "does not implement KSY export" in str(o.exc):
                ctx.record(case, False, ["export/outside-fragment"])
                return None
            ctx.record(case, False, ["export/raises-" + type(o.exc).__name__])
            return Failure("C19/%s/export-raises/%s" % (fk, type(o.exc).__name__), "export_ksy raised %r | %s" % (o, where))
        o_again, doc_again = export(con)
        if doc is not None and doc_again != doc:
            return Failure("C19/%s/export-not-repeatable" % fk, "a second export_ksy() of the same construct differs from the first: %s vs %s | %s" % (short(doc_again, 300), short(doc, 300), where))
        if doc is None:
            return Failure("C19/export-not-serialisable", "export_ksy output could not be read back: %s | %s" % (short(o.value), where))
        named = sum(1 for s in G.walk(spec) if s[0] in ("struct", "seq", "fseq", "bitstruct") for n, _ in (s[1] if s[0] != "fseq" else s[2]) if n)
        ctx.record(case, named >= 2 or bool(doc.get("types")), ["export/ok"] + ["kind/" + k for k in G.kinds(spec)])
        f = structural(spec, doc.get("seq") or [], doc.get("types") or {}, where)
        if f:
            return f
        # semantic: interpret the schema on the canonical encoding
        try:
            data = R.ref_build(spec, value, params)
            rv, rend, trace = R.ref_trace(spec, data + b"", params)
        except (R.Reject, R.ForeignError):
            ctx.tally("semantic/value-outside-domain")
            return None
        sch = K.Schema(doc, enum_base=enum_base, scope_fallback=scope_fallback)
        try:
            fields, kend = sch.parse(data)
        except K.Uninterpretable as e:
            return Failure("C19/%s/uninterpretable/%s" % (kind_at(spec, getattr(e, "where", [])), e.aspect), "schema cannot be interpreted at %s: %s | schema=%s | %s" % (
                getattr(e, "where", []), e, short(doc, 500), where))
        except K.KsyMismatch as e:
            return Failure("C19/%s/schema-rejects-canonical" % kind_at(spec, getattr(e, "where", [])), "interpreting the schema on the canonical encoding %s fails at %s: %s | schema=%s | %s" % (
                data.hex(), getattr(e, "where", []), e, short(doc, 500), where))
        declared = {n for s_ in G.walk(spec) if s_[0] in ("struct", "seq", "fseq", "bitstruct") for n, _ in (s_[1] if s_[0] != "fseq" else s_[2]) if n}
        flat = flatten(fields)
        bykey = {}
        for p, s_, e_, v_ in flat:
            bykey.setdefault(p, []).append((s_, e_, v_))
        seen = {}
        in_bits = _bit_paths(spec)
        for path, start, end, val, kind in trace:
            if not set(path) <= declared:
                continue      # helper names of the reference model's macro expansions (PrefixedArray count/items)
            if val is None and start == end and kind in ("if", "pass", "padding", "computed", "check"):
                continue      # a member skipped by its condition / without bytes has no field in the schema run
            i = seen.get(path, 0)
            seen[path] = i + 1
            cands = bykey.get(path)
            if not cands or i >= len(cands):
                return Failure("C19/%s/member-missing" % kind, "member %s (bytes %d..%d) has no counterpart in the interpreted schema | schema=%s | %s" % (
                    "->".join(path), start, end, short(doc, 500), where))
            ks, ke, kv = cands[i]
            bit = any(path[:n] in in_bits for n in range(1, len(path) + 1))
            if bit:
                if (ke - ks) != (end - start):
                    return Failure("C19/%s/bit-width" % kind, "bit member %s is %d bits wide in the construct, %d in the schema | %s" % ("->".join(path), end - start, ke - ks, where))
            elif (ks, ke) != (start, end):
                return Failure("C19/%s/extent" % kind, "member %s occupies bytes %d..%d, the schema assigns %d..%d (data %s) | schema=%s | %s" % (
                    "->".join(path), start, end, ks, ke, data.hex(), short(doc, 500), where))
            if kind == "const":
                if not bit and not (isinstance(kv, bytes) and kv == data[start:end]):
                    return Failure("C19/const/contents", "constant member %s is encoded as %s, the schema's contents are %r | schema=%s | %s" % (
                        "->".join(path), data[start:end].hex(), kv, short(doc, 500), where))
                continue
            if kind == "enum" and enum_base:
                if not (str(kv) == str(val) and isinstance(kv, str) == isinstance(val, str)):
                    return Failure("C19/enum/label-table", "enum member %s parses to %r, the schema's table yields %r (data %s) | schema=%s | %s" % (
                        "->".join(path), val, kv, data.hex(), short(doc, 500), where))
                continue
            if kind in ("int", "float", "varint", "bytes", "gbytes", "pstr", "pascal", "cstr", "gstr", "flag", "bits", "bit", "nibble", "octet", "array", "grange", "flagsenum", "pointer",
                        "runtil", "parray", "prefixed", "fixedsized", "padded", "hex", "rebuild", "default", "nullstrip"):
                if not scalar_eq(kv, val):
                    return Failure("C19/%s/value" % kind, "member %s parses to %s, the schema yields %s (data %s) | schema=%s | %s" % (
                        "->".join(path), short(val), short(kv), data.hex(), short(doc, 500), where))
        if kend != rend and not any(s[0] in KNOWN_KINDS for s in G.walk(spec)):
            return Failure("C19/%s/total-extent" % fk, "the construct consumes %d bytes, the schema %d (data %s) | schema=%s | %s" % (rend, kend, data.hex(), short(doc, 500), where))
        return None
    return oracle


def kind_at(spec, where):
    """kind of the spec member reached by following the schema field ids (exporter-internal ids and None skipped)"""
    cur = spec
    for fid in where:
        if fid is None or fid in INTERNAL_IDS:
            continue
        nxt = None
        for s_ in G.walk(cur):
            members = s_[1] if s_[0] in ("struct", "seq", "bitstruct") else (s_[2] if s_[0] == "fseq" else None)
            if members:
                for n, sub in members:
                    if n == fid:
                        nxt = sub
                        break
            if nxt is not None:
                break
        if nxt is None:
            break
        cur = nxt
    while cur[0] in ("docs", "hex", "hexdump", "rebuild", "default") and len(cur) > 1 and isinstance(cur[1], list):
        cur = cur[1]
    return cur[0]


def _first_kind(spec):
    for s in G.walk(spec):
        if s[0] not in ("struct", "seq", "docs"):
            return s[0]
    return spec[0]


def _culprit(spec, trace, _):
    return _first_kind(spec)


def _bit_paths(spec, path=()):
    """paths of members that live inside a bit-level region"""
    out = set()
    k = spec[0]
    if k in ("bitstruct", "bitwise"):
        out.add(path)
    members = spec[1] if k in ("struct", "seq", "bitstruct") else (spec[2] if k == "fseq" else None)
    if members is not None:
        for n, s in members:
            out |= _bit_paths(s, path + ((n,) if n else ()))
    else:
        for c in G.children(spec):
            out |= _bit_paths(c, path)
    return out


# ---------------------------------------------------------------------------------------------
# generator for the exportable fragment
# ---------------------------------------------------------------------------------------------
@st.composite
def exportable(draw, depth=2, tail=True, allow_known=False):
    names = [0]

    def fresh(p="f"):
        names[0] += 1
        return "%s%d" % (p, names[0])

    strs = []
    only = draw(st.sampled_from([None, "enum", "ite", "if", "if"])) if allow_known else None

    def leaf(ints):
        if strs and draw(st.integers(0, 5)) == 0:
            # a condition on a text member compared with a string literal (the literal must stay a literal in the schema)
            return ["if", ["bin", draw(st.sampled_from(["==", "!="])), ["this", [draw(st.sampled_from(strs))], "attr"], ["const", draw(st.sampled_from(["a", "ab", "", "zz"]))]], B1]
        opts = ["int", "int", "float", "varint", "bytes", "bytesref", "pstr", "pascal", "cstr", "flag", "const", "constint", "constframed", "padding", "padded", "rebuild", "default", "hex",
                "array", "arrayref", "parray", "prefixed", "fixedsized", "runtil", "docs", "pass", "if", "bitstruct", "pointer"]
        if allow_known:
            opts = ["int", "bytes", "enum", "flagsenum", "nullterm", "pointer", "cstr16", "prefixed-incl", "ite", "if"]
            if only is not None:
                # one construct with a recorded defect among plain members: the second passes (which grant what the recorded
                # defect leaves out and look at the rest) apply to such specs only
                opts = ["int", "int", "bytes", only, only]
        if not ints:
            opts = [o for o in opts if o not in ("bytesref", "arrayref", "if", "ite")] or ["int"]
        o = draw(st.sampled_from(opts))
        if o == "int":
            return V.gen_int(draw)
        if o == "float":
            return V.gen_float(draw)
        if o == "varint":
            return ["varint"]
        if o == "bytes":
            return ["bytes", draw(st.integers(0, 4))]
        if o == "bytesref":
            return ["bytes", ["this", [draw(st.sampled_from(ints))], draw(st.sampled_from(["attr", "item"]))]]
        if o == "pstr":
            return ["pstr", draw(st.integers(1, 6)), draw(st.sampled_from(["ascii", "utf8"]))]
        if o == "pascal":
            return ["pascal", B1, draw(st.sampled_from(["ascii", "utf8"]))]
        if o == "cstr":
            return ["cstr", draw(st.sampled_from(["ascii", "utf8"]))]
        if o == "cstr16":
            return ["cstr", "utf_16_le"]
        if o == "flag":
            return ["flag"]
        if o == "const":
            return ["const", draw(st.binary(min_size=1, max_size=3)), None]
        if o == "constint":
            return ["const", draw(st.integers(0, 200)), draw(st.sampled_from([B1, ["int", 2, False, "l", "alias"]]))]
        if o == "constframed":
            # a constant whose encoding is more than the constant's own bytes (length prefix, terminator, padding, text encoding)
            v = draw(st.binary(min_size=1, max_size=3).filter(lambda b: b"\x00" not in b))
            form = draw(st.sampled_from(["prefixed", "nullterm", "padded", "bytes", "cstr", "pascal"]))
            if form == "prefixed":
                return ["const", v, ["prefixed", B1, ["gbytes"], False]]
            if form == "nullterm":
                return ["const", v, ["nullterm", ["gbytes"], b"\x00", False, True, True]]
            if form == "padded":
                return ["const", v, ["padded", len(v) + draw(st.integers(0, 2)), ["bytes", len(v)], b"\x00"]]
            if form == "bytes":
                return ["const", v, ["bytes", len(v)]]
            txt = draw(st.text(alphabet="abZ9", min_size=1, max_size=3))
            return ["const", txt, ["cstr", "ascii"] if form == "cstr" else ["pascal", B1, "ascii"]]
        if o == "padding":
            return ["padding", draw(st.integers(0, 3)), b"\x00"]
        if o == "padded":
            return ["padded", draw(st.integers(2, 5)), draw(st.sampled_from([B1, ["int", 2, False, "b", "alias"]])), b"\x00"]
        if o == "rebuild":
            return ["rebuild", B1, ["const", draw(st.integers(0, 9))]]
        if o == "default":
            return ["default", ["int", 2, False, "b", "alias"], draw(st.integers(0, 9))]
        if o == "hex":
            return ["hex", draw(st.sampled_from([B1, ["bytes", 2]]))]
        if o == "array":
            return ["array", draw(st.integers(0, 3)), draw(st.sampled_from([B1, ["int", 2, True, "l", "alias"], ["float", 4, "b", "alias"]]))]
        if o == "arrayref":
            return ["array", ["this", [draw(st.sampled_from(ints))], "attr"], B1]
        if o == "parray":
            return ["parray", B1, draw(st.sampled_from([B1, ["int", 2, False, "b", "alias"]]))]
        if o in ("prefixed", "prefixed-incl"):
            inner = draw(st.sampled_from([["gbytes"], ["struct", [[fresh(), B1], [fresh(), ["gbytes"]]]], ["gstr", "utf8"]]))
            return ["prefixed", B1, inner, o == "prefixed-incl"]
        if o == "fixedsized":
            return ["fixedsized", draw(st.integers(0, 5)), ["gbytes"]]
        if o == "runtil":
            return ["runtil", ["bin", "==", ["obj", []], ["const", 0]], B1]
        if o == "docs":
            return ["docs", V.gen_int(draw, maxbytes=4), "documented field", "inner"]
        if o == "pass":
            return ["pass"]
        if o == "if":
            def cond():
                return ["bin", draw(st.sampled_from([">", "==", "!="])), ["this", [draw(st.sampled_from(ints))], "attr"], ["const", draw(st.integers(0, 3))]]
            # the guarded member: a plain field, or another conditional (both conditions must hold), possibly behind a wrapper
            sub = draw(st.sampled_from(["plain", "plain", "wide"] if not allow_known else ["nested", "nested-default", "plain"]))
            if sub == "plain":
                return ["if", cond(), B1]
            if sub == "wide":
                return ["if", cond(), draw(st.sampled_from([["int", 2, False, "b", "alias"], ["bytes", 2], ["array", 2, B1]]))]
            inner = ["if", cond(), draw(st.sampled_from([B1, ["int", 2, False, "b", "alias"]]))]
            return ["if", cond(), inner if sub == "nested" else ["default", inner, 7]]
        if o == "ite":
            return ["ite", ["bin", draw(st.sampled_from([">", "=="])), ["this", [draw(st.sampled_from(ints))], "attr"], ["const", draw(st.integers(0, 3))]], B1, ["int", 2, False, "b", "alias"]]
        if o == "bitstruct":
            g = V.GenCtx(V.SEQUENTIAL - {"bytewise"}, 1, False)
            bs = V.gen_bitstruct(draw, g)
            members = bs[1] if bs[0] == "bitstruct" else bs[1][1]
            members = [[n, s] for n, s in members if s[0] in ("bits", "flag", "padding", "bit", "nibble", "octet") and not (s[0] == "bits" and (s[2] or s[3]))]
            total = sum({"bit": 1, "nibble": 4, "octet": 8, "flag": 1}.get(s[0], s[1] if s[0] in ("bits", "padding") else 0) for n, s in members)
            if total % 8:
                members.append([None, ["padding", -total % 8, b"\x00"]])
            if not members:
                members = [[fresh("b"), ["octet"]]]
            return ["bitstruct", members]
        if o == "enum":
            # (aliases: the label reported for a value is the last one declared)
            return ["enum", B1, draw(st.sampled_from([[["A", 1], ["B", 2]], [["stop", 0], ["run", 1], ["halt", 0]], [["zulu", 5], ["alpha", 5], ["mike", 6]],
                                                      [["b", 200], ["a", 100], ["c", 200]]])), "kw"]
        if o == "flagsenum":
            return ["flagsenum", B1, [["r", 1], ["w", 2]], "kw"]
        if o == "nullterm":
            return ["nullterm", ["gbytes"], b"\x00", False, True, True]
        if o == "pointer":
            if allow_known and ints:
                return ["pointer", ["this", [draw(st.sampled_from(ints))], "attr"], B1]
            if draw(st.integers(0, 2)) == 0:
                # a pointer whose target holds another pointer (header -> directory entry -> payload)
                return ["pointer", draw(st.integers(0, 2)), ["struct", [[fresh(), B1], [fresh(), ["pointer", draw(st.integers(0, 3)), draw(st.sampled_from([B1, ["int", 2, False, "b", "alias"]]))]]]]]
            return ["pointer", draw(st.integers(0, 2)), draw(st.sampled_from([B1, ["int", 2, False, "b", "alias"]]))]
        raise AssertionError(o)

    def struct(d, tail_here):
        members = []
        ints = []
        n = draw(st.integers(1, 5))
        for i in range(n):
            last = i == n - 1
            name = fresh()
            if d > 0 and draw(st.integers(0, 4)) == 0:
                kind = draw(st.sampled_from(["struct", "struct", "seq", "fseq"]))
                sub = struct(d - 1, tail_here and last)
                if kind == "seq":
                    sub = ["seq", [[None, s] for _, s in sub[1]]]
                elif kind == "fseq":
                    named = [nm for nm, s in sub[1] if nm and not G.buildnone(s)]
                    if len(named) == 1 and all(G.buildnone(s) or nm == named[0] for nm, s in sub[1]):
                        sub = ["fseq", named[0], sub[1]]
                members.append([name, sub])
                continue
            if tail_here and last and draw(st.booleans()):
                t = draw(st.sampled_from(["gbytes", "gstr", "grange", "nullstrip"]))
                sp = {"gbytes": ["gbytes"], "gstr": ["gstr", "utf8"], "grange": ["grange", ["int", 2, False, "b", "alias"]], "nullstrip": ["nullstrip", ["gbytes"], b"\x00"]}[t]
                members.append([name, sp])
                continue
            sp = leaf(ints)
            anonymous = sp[0] in ("const", "padding") and draw(st.booleans())
            members.append([None if anonymous else name, sp])
            if sp[0] == "int" and not sp[2] and not anonymous:
                ints.append(name)
            if sp[0] == "pstr" and not anonymous and d == depth:
                strs.append(name)
        return ["struct", members]
    spec = struct(depth, tail)
    params = {}
    value = V.gen_value(draw, spec, R.top_scope(params, "build"))
    return [spec, params, value]


def campaign_fragment(ctx):
    ctx.search(exportable(), oracle_factory(ctx), ctx.budget(16000, 200000))
campaign_fragment.shards = (10, 16)


def campaign_known(ctx):
    """the kinds with recorded exporter defects stay under test (each failure must carry its recorded bucket)"""
    ctx.search(exportable(depth=1, allow_known=True), oracle_factory(ctx), ctx.budget(6000, 40000))
campaign_known.shards = (4, 8)


CAMPAIGNS = {"fragment": campaign_fragment, "known": campaign_known}


def replay(campaign, case):
    class _C:
        def record(self, *a, **k): pass
        def tally(self, *a, **k): pass
    return oracle_factory(_C())(case)
