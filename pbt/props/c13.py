"""C13 — constants, validators and label mappings are enforced in both directions; Error always aborts."""
import io
import itertools

from hypothesis import strategies as st

import construct as C
from construct import this, obj_

from pbt.harness import Failure, call, short

RULE = ("Const / OneOf / NoneOf / ExprValidator / Check / Enum / FlagsEnum / Mapping instances over one-byte, multi-byte, VarInt, "
        "bytes and string sub-constructs with generated tables and predicates; every one-byte input is parsed and every one-byte "
        "value (plus out-of-domain values, every label spelling: name, int, EnumIntegerString, 'a|b' with spaces, d.a|d.b, dicts "
        "with extra false/private keys, unknown labels, wrong types) is built, exhaustively per instance; Error nested in chains "
        "(depth <= 3) of 27 wrappers with consumable members before it, compared with a twin construct in which Error is "
        "replaced by a recording probe: whenever the probe is reached the real construct must raise ExplicitError. "
        "non-trivial = input/value on the accept/reject boundary (rejected, or accepted with a table hit); Error chains: probe reached")
ASSUMPTIONS = ["Const.build compares with Python equality (documented: 'or given object, if not None')",
               "Peek is documented as 'building does nothing', so an Error below Peek is not reached when building",
               "lazy wrappers excluded from Error chains (their skipping depends on sizeof, which differs between Error and the probe)"]

ONEBYTE = {"Byte": lambda: C.Byte, "Int8sb": lambda: C.Int8sb, "Int8ul": lambda: C.Int8ul, "BytesInteger1": lambda: C.BytesInteger(1),
           "Bitwise8": lambda: C.Bitwise(C.BitsInteger(8)), "FormatField": lambda: C.FormatField("<", "B")}
WIDE = {"Int16ub": (lambda: C.Int16ub, 2, False), "Int16sl": (lambda: C.Int16sl, 2, True), "Int24ub": (lambda: C.Int24ub, 3, False),
        "Int32sb": (lambda: C.Int32sb, 4, True), "Int64ul": (lambda: C.Int64ul, 8, False), "VarInt": (lambda: C.VarInt, None, False),
        "ZigZag": (lambda: C.ZigZag, None, True), "BytesInteger9": (lambda: C.BytesInteger(9), 9, False)}


def decode1(name, b):
    return b - 256 if name == "Int8sb" and b >= 128 else b


def encode1(name, v):
    if name == "Int8sb":
        return bytes([v & 0xff]) if -128 <= v <= 127 else None
    return bytes([v]) if 0 <= v <= 255 else None


def is_exc(o, cls):
    return (not o.ok) and isinstance(o.exc, cls)


# ---------------------------------------------------------------------------------------------
# Const
# ---------------------------------------------------------------------------------------------
def const_oracle(ctx):
    def oracle(case):
        subname, value = case
        if subname == "bytes":
            con = C.Const(value)
            enc = value
            others = [b"", value + b"\x00", value[:-1], bytes(len(value)), bytes([value[0] ^ 1]) + value[1:], 0, None, value.decode("latin1"), bytearray(value)]
        elif subname in ONEBYTE:
            sub = ONEBYTE[subname]()
            con = C.Const(value, sub)
            enc = encode1(subname, value)
            others = list(range(-130, 258)) + [None, True, False, 1.0, float(value), str(value), b"\x01", [value]]
        elif subname == "CString":
            con = C.Const(value, C.CString("utf8"))
            enc = value.encode("utf8") + b"\x00"
            others = ["", value + "x", value[:-1], value.upper(), None, value.encode(), 0]
        else:
            mk, width, signed = WIDE[subname]
            con = C.Const(value, mk())
            enc = mk().build(value)
            others = [value + 1, value - 1, -value, 0, 1, None, float(value), str(value), value + 256, value ^ 0x80, True]
        # parse: accepts exactly the encoding
        inputs = [enc]
        if len(enc) == 1:
            inputs = [bytes([b]) for b in range(256)]
        else:
            for i in range(len(enc)):
                for bit in (0, 3, 7):
                    inputs.append(enc[:i] + bytes([enc[i] ^ (1 << bit)]) + enc[i + 1:])
            inputs += [enc[:-1], enc + b"\x00", b"", bytes(len(enc))]
        for data in inputs:
            s = io.BytesIO(data + b"\x77")
            o = call(con.parse_stream, s)
            accept = (data + b"\x77")[:len(enc)] == enc
            ctx.record([subname, value, "parse", data], True, ["const/parse-" + ("accept" if accept else "reject")])
            if accept:
                if not o.ok or o.value != value or s.tell() != len(enc):
                    return Failure("C13/const/parse-rejects-constant", "Const(%r, %s).parse(%s) -> %r" % (value, subname, data.hex(), o))
            elif o.ok:
                # (for multi-byte subs a different prefix could still decode to the same value: VarInt non-minimal)
                if not (subname in ("VarInt", "ZigZag") and o.value == value):
                    return Failure("C13/const/parse-accepts-other", "Const(%r, %s).parse(%s) -> %r" % (value, subname, data.hex(), o))
        # build
        for v in others:
            try:
                equal = v is None or bool(v == value)
            except Exception:
                equal = False
            o = call(con.build, v)
            ctx.record([subname, value, "build", repr(v)], True, ["const/build-" + ("accept" if equal else "reject")])
            if equal:
                if not o.ok or o.value != enc:
                    return Failure("C13/const/build-not-constant", "Const(%r, %s).build(%r) -> %r, expected %s" % (value, subname, v, o, enc.hex()))
            else:
                if o.ok:
                    return Failure("C13/const/build-accepts-other", "Const(%r, %s).build(%r) -> %r" % (value, subname, v, o))
                if not isinstance(o.exc, C.ConstError):
                    return Failure("C13/const/build-wrong-error", "Const(%r, %s).build(%r) raised %r instead of ConstError" % (value, subname, v, o))
        o = call(con.build, value)
        if not o.ok or o.value != enc:
            return Failure("C13/const/build-not-constant", "Const(%r, %s).build(constant) -> %r" % (value, subname, o))
        return None
    return oracle


@st.composite
def const_cases(draw):
    subname = draw(st.sampled_from(["bytes"] + sorted(ONEBYTE) + sorted(WIDE) + ["CString"]))
    if subname == "bytes":
        return [subname, draw(st.binary(min_size=1, max_size=5))]
    if subname in ONEBYTE:
        return [subname, draw(st.integers(-128, 127) if subname == "Int8sb" else st.integers(0, 255))]
    if subname == "CString":
        return [subname, draw(st.text(alphabet="abcé€", min_size=1, max_size=4))]
    mk, width, signed = WIDE[subname]
    if width is None:
        return [subname, draw(st.integers(-(1 << 70) if signed else 0, 1 << 70))]
    lo, hi = (-(1 << (8 * width - 1)), (1 << (8 * width - 1)) - 1) if signed else (0, (1 << (8 * width)) - 1)
    return [subname, draw(st.one_of(st.sampled_from([lo, hi, 0, 1]), st.integers(lo, hi)))]


def campaign_const(ctx):
    ctx.search(const_cases(), const_oracle(ctx), ctx.budget(800, 12000))
campaign_const.shards = (2, 4)


# ---------------------------------------------------------------------------------------------
# validators
# ---------------------------------------------------------------------------------------------
# predicate language: ["in", [..]] ["notin", [..]] ["mod", k, r] ["lt", c] ["mask", m, r]
def pred(p, v):
    k = p[0]
    if k == "in":
        return v in p[1]
    if k == "notin":
        return v not in p[1]
    if k == "mod":
        return v % p[1] == p[2]
    if k == "lt":
        return v < p[1]
    return (v & p[1]) == p[2]


def make_validator(form, p, sub):
    if p[0] == "in" and form == "macro":
        return C.OneOf(sub, list(p[1]))
    if p[0] == "notin" and form == "macro":
        return C.NoneOf(sub, list(p[1]))
    if form == "exprvalidator" or form == "macro":
        return C.ExprValidator(sub, lambda obj, ctx: pred(p, obj))
    if form == "objexpr":
        e = {"mod": lambda: obj_ % p[1] == p[2], "lt": lambda: obj_ < p[1], "mask": lambda: obj_ & p[1] == p[2]}.get(p[0])
        if e is None:
            return C.ExprValidator(sub, lambda obj, ctx: pred(p, obj))
        return C.ExprValidator(sub, e())
    # Check inside a Struct
    e = {"mod": lambda: this.x % p[1] == p[2], "lt": lambda: this.x < p[1], "mask": lambda: this.x & p[1] == p[2]}.get(p[0])
    f = e() if e else (lambda c: pred(p, c.x))
    return C.Struct("x" / sub, C.Check(f))


def validator_oracle(ctx):
    def oracle(case):
        subname, form, p = case
        sub = ONEBYTE[subname]()
        con = make_validator(form, p, sub)
        check = form == "check"
        err = C.CheckError if check else C.ValidationError
        for b in range(256):
            v = decode1(subname, b)
            want = bool(pred(p, v))
            o = call(con.parse, bytes([b]))
            ctx.record([case, "parse", b], True, ["validator/parse-" + ("accept" if want else "reject")])
            got = o.value.x if (o.ok and check) else (o.value if o.ok else None)
            if want and not (o.ok and got == v):
                return Failure("C13/validator/parse-rejects-valid", "%s over %s with %s: parse(%02x) -> %r, predicate holds for %d" % (form, subname, p, b, o, v))
            if not want and not is_exc(o, err):
                return Failure("C13/validator/parse-accepts-invalid", "%s over %s with %s: parse(%02x) -> %r, predicate fails for %d" % (form, subname, p, b, o, v))
        lo, hi = (-128, 127) if subname == "Int8sb" else (0, 255)
        for v in range(lo, hi + 1):
            want = bool(pred(p, v))
            o = call(con.build, dict(x=v) if check else v)
            ctx.record([case, "build", v], True, ["validator/build-" + ("accept" if want else "reject")])
            if want and not (o.ok and o.value == encode1(subname, v)):
                return Failure("C13/validator/build-rejects-valid", "%s over %s with %s: build(%d) -> %r" % (form, subname, p, v, o))
            if not want and not is_exc(o, err):
                return Failure("C13/validator/build-accepts-invalid", "%s over %s with %s: build(%d) -> %r (a value violating the constraint was serialised or the wrong error raised)" % (form, subname, p, v, o))
        # the validated field generates its own value (Default, Const, Rebuild) and nothing is supplied: whatever build does with
        # that, bytes the same construct refuses to parse must not come out
        if p[0] == "in" or check:
            picks = [v for v in list(p[1])[:2] + [lo, hi, 7] if isinstance(v, int) and lo <= v <= hi] if p[0] == "in" else [lo, hi, 0, 7, 9]
            for d in picks:
                for wname, wrap in (("Default", lambda x: C.Default(x, d)), ("Const", lambda x: C.Const(d, x)), ("Rebuild", lambda x: C.Rebuild(x, lambda ctx: d))):
                    con2 = make_validator(form, p, wrap(ONEBYTE[subname]()))
                    o = call(con2.build, dict() if check else None)
                    ctx.record([case, "build-generated", wname, d], True, ["validator/build-generated-value"])
                    if o.ok:
                        back = call(con2.parse, o.value)
                        if o.value != encode1(subname, d) or not back.ok:
                            return Failure("C13/validator/build-serialises-refused-value", "%s over %s(%s, %d) with %s: build from nothing -> %s, parsing that -> %r" % (
                                form, wname, subname, d, p, o.value.hex(), back))
                    elif not isinstance(o.exc, C.ConstructError):
                        return Failure("C13/validator/build-generated-foreign", "%s over %s(%s, %d) with %s: build from nothing raised %r" % (form, wname, subname, d, p, o))
        return None
    return oracle


@st.composite
def validator_cases(draw):
    subname = draw(st.sampled_from(sorted(ONEBYTE)))
    form = draw(st.sampled_from(["macro", "exprvalidator", "objexpr", "check"]))
    vals = st.lists(st.integers(-128, 255), max_size=6, unique=True)
    p = draw(st.one_of(vals.map(lambda l: ["in", l]), vals.map(lambda l: ["notin", l]),
                       st.tuples(st.integers(1, 9), st.integers(0, 8)).map(lambda t: ["mod", t[0], t[1] % t[0]]),
                       st.integers(-128, 256).map(lambda c: ["lt", c]),
                       st.tuples(st.integers(1, 255), st.integers(0, 255)).map(lambda t: ["mask", t[0], t[1] & t[0]])))
    return [subname, form, p]


# OneOf/NoneOf admit exactly the objects for which Python's `in` holds on the collection the user gave, whatever its type
def collection_oracle(ctx):
    def oracle(case):
        subkind, colltype, items, macro = case
        if subkind == "ntuple":
            import collections as _c
            T = _c.namedtuple("T", "a b")
            sub, domain = C.NamedTuple("T", "a b", C.Array(2, C.Byte)), [T(a, b) for a in (0, 1, 2) for b in (0, 1, 2)]
            items = [T(*x) for x in items]
        elif subkind == "byte":
            sub, domain = C.Byte, list(range(0, 256))
        elif subkind == "bytes1":
            sub, domain = C.Bytes(1), [bytes([b]) for b in range(256)]
        elif subkind == "bytes2":
            sub, domain = C.Bytes(2), [bytes([a, b]) for a in (0, 1, 65, 66, 255) for b in (0, 1, 65, 66, 255)]
        else:
            sub, domain = C.PaddedString(2, "ascii"), [a + b for a in "ABg" for b in "ABg"] + ["A", "B", "g"]
        coll = {"list": list, "tuple": tuple, "set": set, "frozenset": frozenset, "dictkeys": lambda x: {k: None for k in x}, "same": lambda x: x,
                "range": lambda x: range(x[0], x[1])}[colltype](items)
        con = (C.OneOf if macro == "oneof" else C.NoneOf)(sub, coll)
        for v in domain:
            try:
                member = v in coll
            except TypeError:
                continue        # (the predicate itself is not defined for this pair: int in str ...)
            want = member if macro == "oneof" else not member
            enc = sub.build(v)
            o = call(con.parse, enc)
            b = call(con.build, v)
            ctx.record([case, repr(v)], True, ["collection/%s/%s" % (colltype, "accept" if want else "reject")])
            if want and not (o.ok and o.value == v and b.ok and b.value == enc):
                return Failure("C13/validator/collection-rejects-valid", "%s(%s, %r): %r satisfies the predicate but parse -> %r, build -> %r" % (macro, subkind, coll, v, o, b))
            if not want and not (is_exc(o, C.ValidationError) and is_exc(b, C.ValidationError)):
                return Failure("C13/validator/collection-accepts-invalid", "%s(%s, %r): %r violates the predicate but parse -> %r, build -> %r" % (macro, subkind, coll, v, o, b))
        return None
    return oracle


@st.composite
def collection_cases(draw):
    subkind = draw(st.sampled_from(["byte", "byte", "bytes1", "bytes2", "str2", "ntuple"]))
    macro = draw(st.sampled_from(["oneof", "noneof"]))
    if subkind == "ntuple":
        return [subkind, draw(st.sampled_from(["list", "tuple", "set"])), draw(st.lists(st.tuples(st.integers(0, 2), st.integers(0, 2)).map(list), max_size=4, unique_by=tuple)), macro]
    if subkind == "byte":
        colltype = draw(st.sampled_from(["list", "tuple", "set", "frozenset", "dictkeys", "range", "same"]))
        if colltype == "range":
            a = draw(st.integers(0, 255))
            return [subkind, colltype, [a, draw(st.integers(a, 256))], macro]
        if colltype == "same":
            return [subkind, colltype, draw(st.binary(max_size=5)), macro]      # a bytes object holds integers
        return [subkind, colltype, draw(st.lists(st.integers(0, 255), max_size=5, unique=True)), macro]
    if subkind in ("bytes1", "bytes2"):
        colltype = draw(st.sampled_from(["list", "tuple", "set", "same", "same"]))
        if colltype == "same":
            return [subkind, colltype, draw(st.binary(max_size=6).map(lambda b: bytes(x % 3 + 65 if x % 2 else x for x in b))), macro]   # substring semantics
        n = 1 if subkind == "bytes1" else 2
        return [subkind, colltype, draw(st.lists(st.binary(min_size=n, max_size=n), max_size=4, unique=True)), macro]
    colltype = draw(st.sampled_from(["list", "set", "same", "same"]))
    if colltype == "same":
        return [subkind, colltype, draw(st.text(alphabet="ABg", max_size=6)), macro]
    return [subkind, colltype, draw(st.lists(st.text(alphabet="ABg", min_size=1, max_size=2), max_size=4, unique=True)), macro]


def constctx_oracle(ctx):
    """'always emits that encoding': the encoding of a constant depends on (constant, subconstruct, context), every time"""
    def oracle(case):
        value, signed, contexts = case
        con = C.Const(value, C.BytesInteger(this._params.w, signed=signed, swapped=this._params.s))
        st_ = C.Struct("m" / C.Const(value, C.IfThenElse(this._params.s, C.Int16ul, C.Int16ub)), "t" / C.Byte)
        for i, (w, s) in enumerate(contexts):
            want = call(C.BytesInteger(w, signed=signed, swapped=s).build, value)
            got = call(con.build, None, w=w, s=s)
            ctx.record([case, i], i > 0, ["constctx/build#%d" % min(i, 3)])
            if want.ok != got.ok or (want.ok and want.value != got.value):
                return Failure("C13/const/context-encoding", "Const(%d, BytesInteger(this._params.w, swapped=this._params.s)) call #%d with w=%d s=%r: build -> %r, the encoding there is %r | contexts=%s" % (
                    value, i, w, s, got, want, contexts))
            if want.ok:
                back = call(con.parse, want.value, w=w, s=s)
                if not (back.ok and back.value == value):
                    return Failure("C13/const/context-encoding", "Const over a context-dependent field refuses its own encoding %s under w=%d s=%r (call #%d): %r" % (want.value.hex(), w, s, i, back))
            if 0 <= value < 65536:
                w2 = (C.Int16ul if s else C.Int16ub).build(value) + b"\x07"
                g2 = call(st_.build, dict(t=7), w=w, s=s)
                if not (g2.ok and g2.value == w2):
                    return Failure("C13/const/context-encoding", "Struct(m/Const(%d, IfThenElse(this._params.s, Int16ul, Int16ub)), t) call #%d s=%r: build -> %r, expected %s" % (value, i, s, g2, w2.hex()))
        return None
    return oracle


def campaign_constctx(ctx):
    strat = st.tuples(st.integers(0, 70000), st.booleans(), st.lists(st.tuples(st.integers(1, 4), st.booleans()), min_size=2, max_size=5)).map(
        lambda t: [t[0], t[1], [list(x) for x in t[2]]])
    ctx.search(strat, constctx_oracle(ctx), ctx.budget(400, 6000))
campaign_constctx.shards = (1, 4)


# an alternative that a constraint refuses part-way leaves nothing behind: Select/Optional emit exactly what the alternative
# that finally builds emits
def rejected_oracle(ctx):
    def oracle(case):
        k, guard, ok, wrapper, tail = case
        heads = [("h%d" % i) / C.Byte for i in range(k)]
        g = {"oneof": lambda: C.OneOf(C.Byte, [1, 2]), "noneof": lambda: C.NoneOf(C.Byte, [7]), "const": lambda: C.Const(1, C.Byte),
             "check": lambda: C.Struct("v" / C.Byte, C.Check(this.v < 3))}[guard]
        first = C.Struct(*heads, "g" / g())
        gval = (1 if ok else 7)
        gobj = dict(v=gval) if guard == "check" else gval
        obj = dict({("h%d" % i): 0xa0 + i for i in range(k)}, g=gobj, s=0x5b)
        second = C.Struct("s" / C.Byte)
        con = C.Optional(first) if wrapper == "optional" else C.Select(first, second)
        outer = C.Struct("pre" / C.Byte, "x" / con) if tail == "nested" else con
        want_inner = (bytes(0xa0 + i for i in range(k)) + bytes([gval])) if ok else (b"" if wrapper == "optional" else b"\x5b")
        want = (b"\x09" + want_inner) if tail == "nested" else want_inner
        o = call(outer.build, dict(pre=9, x=obj) if tail == "nested" else obj)
        ctx.record(case, not ok, ["rejected/%s/%s" % (wrapper, "refused" if not ok else "accepted")])
        if not o.ok or o.value != want:
            return Failure("C13/rejected-alternative-leaves-bytes", "%s over Struct(%d bytes, %s) built from a value the constraint %s: -> %r, expected %s" % (
                wrapper, k, guard, "admits" if ok else "refuses", o, want.hex()))
        return None
    return oracle


def campaign_rejected(ctx):
    strat = st.tuples(st.integers(0, 4), st.sampled_from(["oneof", "noneof", "const", "check"]), st.booleans(), st.sampled_from(["optional", "select"]),
                      st.sampled_from(["top", "nested"])).map(list)
    ctx.search(strat, rejected_oracle(ctx), ctx.budget(300, 3000))
campaign_rejected.shards = (1, 2)


def campaign_collections(ctx):
    ctx.search(collection_cases(), collection_oracle(ctx), ctx.budget(600, 8000))
campaign_collections.shards = (2, 8)


def campaign_validators(ctx):
    ctx.search(validator_cases(), validator_oracle(ctx), ctx.budget(400, 6000))
campaign_validators.shards = (4, 8)


# ---------------------------------------------------------------------------------------------
# Enum / FlagsEnum / Mapping
# ---------------------------------------------------------------------------------------------
LABELS = ["A", "B", "c", "dd", "E_5", "f"]


def enum_oracle(ctx):
    def oracle(case):
        subname, table = case        # table: [[label, value], ...]; values may repeat (aliases)
        wide = subname in WIDE
        sub = WIDE[subname][0]() if wide else ONEBYTE[subname]()
        con = C.Enum(sub, **{l: v for l, v in table})
        byval = {v: l for l, v in table}
        bylab = {l: v for l, v in table}
        if not wide:
            for b in range(256):
                v = decode1(subname, b)
                o = call(con.parse, bytes([b]))
                ctx.record([case, "parse", b], v in byval, ["enum/parse-" + ("mapped" if v in byval else "unmapped")])
                if v in byval:
                    if not (o.ok and isinstance(o.value, str) and str(o.value) == byval[v] and int(o.value) == v):
                        return Failure("C13/enum/parse-label", "Enum(%s, %s).parse(%02x) -> %r, expected label %r" % (subname, table, b, o, byval[v]))
                else:
                    if not (o.ok and isinstance(o.value, int) and not isinstance(o.value, str) and o.value == v):
                        return Failure("C13/enum/parse-unmapped", "Enum(%s, %s).parse(%02x) -> %r, expected integer %d" % (subname, table, b, o, v))
        # build: labels, attribute objects, ints (mapped and unmapped, any magnitude for variable-length subs), unknown labels
        for l, v in table:
            attr = call(getattr, con, l)
            if not attr.ok:
                return Failure("C13/enum/label-attribute", "Enum(%s, %s).%s raised %r" % (subname, table, l, attr))
            for spelling in (l, attr.value, con.parse(sub.build(v))):
                o = call(con.build, spelling)
                ctx.record([case, "build-label", l], True, ["enum/build-label"])
                if not (o.ok and o.value == sub.build(v)):
                    return Failure("C13/enum/build-label", "Enum(%s, %s).build(%r) -> %r, expected %s" % (subname, table, spelling, o, sub.build(v).hex()))
        # label objects that come from ANOTHER Enum (same name, other number): a label is translated by its name through
        # this Enum's own table; a name this table does not have is refused
        for l, v in table:
            for other in (v + 1, 0, 255):
                if other == v:
                    continue
                foreign = C.EnumIntegerString.new(other, l)
                o = call(con.build, foreign)
                ctx.record([case, "build-foreign-label", l, other], True, ["enum/build-foreign-label"])
                if not (o.ok and o.value == sub.build(v)):
                    return Failure("C13/enum/build-foreign-label", "Enum(%s, %s).build(label %r carrying %d from another Enum) -> %r, expected %s" % (
                        subname, table, l, other, o, sub.build(v).hex()))
        for other in (table[0][1], 1):
            foreign = C.EnumIntegerString.new(other, "nolabel")
            o = call(con.build, foreign)
            ctx.record([case, "build-foreign-unknown", other], True, ["enum/build-unknown"])
            if o.ok or not isinstance(o.exc, C.MappingError):
                return Failure("C13/enum/build-accepts-unknown-label", "Enum(%s, %s).build(unknown label object 'nolabel' carrying %d) -> %r" % (subname, table, other, o))
        ints = list(range(0, 256)) if not wide else [0, 1, 255, 256, 65535]
        if subname in ("VarInt", "ZigZag"):
            ints += [1 << 64, (1 << 64) + 1, 1 << 100, (1 << 200) + 7]
        if subname == "Int8sb":
            ints = list(range(-128, 128))
        for v in ints:
            enc = call(sub.build, v)
            if not enc.ok:
                continue
            o = call(con.build, v)
            if not (o.ok and o.value == enc.value):
                return Failure("C13/enum/build-int", "Enum(%s).build(%d) -> %r, expected %s" % (subname, v, o, enc.value.hex()))
            back = call(con.parse, enc.value)
            ctx.record([case, "int-roundtrip", v], v not in byval, ["enum/int-roundtrip"])
            if v not in byval and not (back.ok and back.value == v and not isinstance(back.value, str)):
                return Failure("C13/enum/unmapped-not-preserved", "Enum(%s).parse(build(%d)) -> %r" % (subname, v, back))
        for bad in ["nolabel", "", "a", "A ", " A", "A|B", "1", str(table[0][1]), "None"]:
            if bad in bylab:
                continue
            o = call(con.build, bad)
            ctx.record([case, "build-unknown", bad], True, ["enum/build-unknown"])
            if o.ok:
                return Failure("C13/enum/build-accepts-unknown-label", "Enum(%s, %s).build(%r) -> %r" % (subname, table, bad, o))
            if not isinstance(o.exc, C.MappingError):
                return Failure("C13/enum/build-unknown-wrong-error", "Enum(%s, %s).build(%r) raised %r instead of MappingError" % (subname, table, bad, o))
        for wrong in [None, 1.5, b"A", ("A",)]:
            o = call(con.build, wrong)
            if o.ok:
                return Failure("C13/enum/build-accepts-wrong-type", "Enum(%s).build(%r) -> %r" % (subname, wrong, o))
        return None
    return oracle


@st.composite
def enum_cases(draw):
    subname = draw(st.sampled_from(sorted(ONEBYTE) + ["Int16ub", "VarInt", "Int64ul", "ZigZag"]))
    if subname in ONEBYTE:
        vals = st.integers(-128, 127) if subname == "Int8sb" else st.integers(0, 255)
    elif subname in ("VarInt", "Int64ul"):
        vals = st.one_of(st.integers(0, 300), st.integers(0, (1 << 64) - 1))
    elif subname == "ZigZag":
        vals = st.integers(-(1 << 70), 1 << 70)
    else:
        vals = st.integers(0, 65535)
    vs = draw(st.lists(vals, min_size=1, max_size=5, unique=True))
    if len(vs) < 5 and draw(st.integers(0, 2)) == 0:
        # aliases: several labels for one value (every one of them builds; the last one declared is what parsing reports)
        for _ in range(draw(st.integers(1, 5 - len(vs)))):
            vs.insert(draw(st.integers(0, len(vs))), draw(st.sampled_from(vs)))
    return [subname, [[l, v] for l, v in zip(LABELS, vs)]]


def campaign_enum(ctx):
    ctx.search(enum_cases(), enum_oracle(ctx), ctx.budget(400, 6000))
campaign_enum.shards = (2, 8)


def flags_oracle(ctx):
    def oracle(case):
        subname, table = case      # [[label, mask]] masks non-zero; may overlap or be multi-bit
        sub = {"Byte": C.Byte, "Int8ul": C.Int8ul, "Int16ub": C.Int16ub}[subname]
        con = C.FlagsEnum(sub, **{l: m for l, m in table})
        width = sub.sizeof()
        masks = {l: m for l, m in table}
        inputs = range(256) if width == 1 else [0, 1, 0xff, 0x100, 0x8000, 0xffff, 0x1234] + [m for _, m in table] + [m ^ 0xffff for _, m in table]
        for v in inputs:
            o = call(con.parse, v.to_bytes(width, "big"))
            ctx.record([case, "parse", v], True, ["flags/parse"])
            if not o.ok:
                return Failure("C13/flagsenum/parse-raises", "FlagsEnum(%s).parse(%x) raised %r" % (table, v, o))
            got = {k: val for k, val in dict.items(o.value) if not k.startswith("_")}
            want = {l: (v & m) == m for l, m in table}
            if got != want or list(got) != [l for l, _ in table]:
                return Failure("C13/flagsenum/parse-flags", "FlagsEnum(%s, %s).parse(%x) -> %r, expected %r" % (subname, table, v, got, want))
            # decode results are accepted by encode, and re-encode to the union of the set masks
            b = call(con.build, o.value)
            union = 0
            for l, m in table:
                if want[l]:
                    union |= m
            if not (b.ok and b.value == union.to_bytes(width, "big")):
                return Failure("C13/flagsenum/rebuild", "FlagsEnum(%s).build(parse(%x)) -> %r, expected %x" % (table, v, b, union))
        labels = [l for l, _ in table]
        for r in range(0, min(len(labels), 3) + 1):
            for combo in itertools.combinations(labels, r):
                want = 0
                for l in combo:
                    want |= masks[l]
                wantb = want.to_bytes(width, "big")
                spellings = ["|".join(combo), " | ".join(combo), "|".join(combo) + "|", {l: True for l in combo},
                             {**{l: True for l in combo}, **{l: False for l in labels if l not in combo}},
                             {**{l: 1 for l in combo}, "_private": True, "unknown_but_false": False}, want]
                if combo:
                    acc = getattr(con, combo[0])
                    for l in combo[1:]:
                        acc = acc | getattr(con, l)
                    spellings.append(acc)
                for sp in spellings:
                    o = call(con.build, sp)
                    ctx.record([case, "build", repr(sp)], True, ["flags/build-known"])
                    if not (o.ok and o.value == wantb):
                        return Failure("C13/flagsenum/build-known", "FlagsEnum(%s, %s).build(%r) -> %r, expected %s" % (subname, table, sp, o, wantb.hex()))
        for bad in ["nolabel", "A|nolabel", "nolabel|A", {"nolabel": True}, {labels[0]: True, "zz": 1}, "A,B", "a"]:
            if isinstance(bad, str) and all(p.strip() in masks or not p.strip() for p in bad.split("|")):
                continue
            o = call(con.build, bad)
            ctx.record([case, "build-unknown", repr(bad)], True, ["flags/build-unknown"])
            if o.ok:
                return Failure("C13/flagsenum/build-accepts-unknown-label", "FlagsEnum(%s).build(%r) -> %r" % (table, bad, o))
            if not isinstance(o.exc, C.MappingError):
                return Failure("C13/flagsenum/build-unknown-wrong-error", "FlagsEnum(%s).build(%r) raised %r instead of MappingError" % (table, bad, o))
        for wrong in [None, 1.5, b"A", ["A"]]:
            o = call(con.build, wrong)
            if o.ok:
                return Failure("C13/flagsenum/build-accepts-wrong-type", "FlagsEnum.build(%r) -> %r" % (wrong, o))
        return None
    return oracle


@st.composite
def flags_cases(draw):
    subname = draw(st.sampled_from(["Byte", "Int8ul", "Int16ub"]))
    top = 255 if subname != "Int16ub" else 65535
    ms = draw(st.lists(st.one_of(st.integers(0, 7 if top == 255 else 15).map(lambda b: 1 << b), st.integers(1, top)), min_size=1, max_size=5, unique=True))
    return [subname, [[l, m] for l, m in zip(LABELS, ms)]]


def campaign_flags(ctx):
    ctx.search(flags_cases(), flags_oracle(ctx), ctx.budget(400, 6000))
campaign_flags.shards = (2, 8)


def mapping_oracle(ctx):
    def oracle(case):
        subname, pairs = case          # [[obj, value]] injective both ways
        sub = ONEBYTE[subname]()
        con = C.Mapping(sub, {o: v for o, v in pairs})
        byval = {v: o for o, v in pairs}
        objs = [o for o, _ in pairs]
        for b in range(256):
            v = decode1(subname, b)
            o = call(con.parse, bytes([b]))
            ctx.record([case, "parse", b], True, ["mapping/parse-" + ("mapped" if v in byval else "unmapped")])
            if v in byval:
                if not (o.ok and o.value == byval[v] and type(o.value) is type(byval[v])):
                    return Failure("C13/mapping/parse-mapped", "Mapping(%s, %s).parse(%02x) -> %r, expected %r" % (subname, pairs, b, o, byval[v]))
            else:
                if o.ok:
                    return Failure("C13/mapping/parse-returns-outside-table", "Mapping(%s, %s).parse(%02x) -> %r which is not in the table" % (subname, pairs, b, o))
                if not isinstance(o.exc, C.MappingError):
                    return Failure("C13/mapping/parse-unmapped-wrong-error", "Mapping.parse(%02x) raised %r instead of MappingError" % (b, o))
        for ob, v in pairs:
            o = call(con.build, ob)
            if not (o.ok and o.value == encode1(subname, v)):
                return Failure("C13/mapping/build-mapped", "Mapping(%s, %s).build(%r) -> %r" % (subname, pairs, ob, o))
        for bad in ["zz", 4242, None, b"zz", 1.25, ("t",), ["unhashable"], {"un": "hashable"}]:
            if any(bad == ob and type(bad) is type(ob) for ob in objs) or bad in objs:
                continue
            o = call(con.build, bad)
            ctx.record([case, "build-unknown", repr(bad)], True, ["mapping/build-unknown"])
            if o.ok:
                return Failure("C13/mapping/build-accepts-unknown", "Mapping(%s).build(%r) -> %r" % (pairs, bad, o))
            if not isinstance(o.exc, C.MappingError):
                return Failure("C13/mapping/build-unknown-wrong-error", "Mapping(%s).build(%r) raised %r instead of MappingError" % (pairs, bad, o))
        return None
    return oracle


@st.composite
def mapping_cases(draw):
    subname = draw(st.sampled_from(sorted(ONEBYTE)))
    vals = draw(st.lists(st.integers(-128, 127) if subname == "Int8sb" else st.integers(0, 255), min_size=1, max_size=5, unique=True))
    objs = draw(st.sampled_from([["x", "y", "z", "w", "v"], [10, 20, 30, 40, 50], [b"p", b"q", b"r", b"s", b"t"], ["s", 7, b"b", (1, 2), None],
                                 [1000, -5, 3.5, "1000", False]]))
    return [subname, [[o, v] for o, v in zip(objs, vals)]]


def campaign_mapping(ctx):
    ctx.search(mapping_cases(), mapping_oracle(ctx), ctx.budget(400, 6000))
campaign_mapping.shards = (2, 8)


# ---------------------------------------------------------------------------------------------
# Error inside wrappers: twin construct with a recording probe
# ---------------------------------------------------------------------------------------------
class ProbeReached(BaseException):
    """unwinds the twin as soon as the probe is reached (BaseException: passes through the library's handlers);
    nothing after that point is needed, and a never-failing zero-width probe under GreedyRange would not terminate"""


class Probe(C.Construct):
    """stands where Error stands; like Error it builds from nothing and has no size, but it records instead of raising"""

    def __init__(self, log):
        super().__init__()
        self.flagbuildnone = True
        self.log = log

    def _parse(self, stream, context, path):
        self.log.append("parse")
        raise ProbeReached()

    def _build(self, obj, stream, context, path):
        self.log.append("build")
        raise ProbeReached()

    def _sizeof(self, context, path):
        raise C.SizeofError("probe has no size", path=path)


# name -> (wrap(inner), value(inner_value), builds_inner)
WRAPPERS = {
    "Struct": (lambda x: C.Struct("a" / C.Byte, "e" / x), lambda v: dict(a=1, e=v), True),
    "Struct-anon": (lambda x: C.Struct("a" / C.Byte, x, "b" / C.Byte), lambda v: dict(a=1, b=2), True),
    "Sequence": (lambda x: C.Sequence(C.Byte, x), lambda v: [1, v], True),
    "FocusedSeq": (lambda x: C.FocusedSeq("e", "a" / C.Const(b"\x01"), "e" / x), lambda v: v, True),
    "Array": (lambda x: C.Array(2, x), lambda v: [v, v], True),
    "GreedyRange": (lambda x: C.GreedyRange(x), lambda v: [v, v], True),
    "RepeatUntil": (lambda x: C.RepeatUntil(True, x), lambda v: [v], True),
    "Select-first": (lambda x: C.Select(x, C.Byte), lambda v: v, True),
    "Select-second": (lambda x: C.Select(C.Const(b"\xff"), x), lambda v: 77 if v is None else v, True),
    "Optional": (lambda x: C.Optional(x), lambda v: v, True),
    "Peek": (lambda x: C.Peek(x), lambda v: v, False),
    "Prefixed": (lambda x: C.Prefixed(C.Byte, x), lambda v: v, True),
    "PrefixedArray": (lambda x: C.PrefixedArray(C.Byte, x), lambda v: [v], True),
    "FixedSized": (lambda x: C.FixedSized(8, x), lambda v: v, True),
    "Padded": (lambda x: C.Padded(8, x), lambda v: v, True),
    "Aligned": (lambda x: C.Aligned(2, x), lambda v: v, True),
    "If": (lambda x: C.If(True, x), lambda v: v, True),
    "IfThenElse-else": (lambda x: C.IfThenElse(this._params.sel, C.Byte, x), lambda v: v, True),
    "Switch": (lambda x: C.Switch(1, {1: x}), lambda v: v, True),
    "Switch-default": (lambda x: C.Switch(3, {1: C.Byte}, default=x), lambda v: v, True),
    "Pointer": (lambda x: C.Pointer(1, x), lambda v: v, True),
    "RawCopy": (lambda x: C.RawCopy(x), lambda v: dict(value=v), True),
    "NullTerminated": (lambda x: C.NullTerminated(x, term=b"\xfe", require=False), lambda v: v, True),
    "NullStripped": (lambda x: C.NullStripped(x), lambda v: v, True),
    "ProcessXor": (lambda x: C.ProcessXor(1, x), lambda v: v, True),
    "Union": (lambda x: C.Union(None, "e" / x), lambda v: dict(e=v), True),
    "Rebuild": (lambda x: C.Rebuild(x, None), lambda v: v, True),
    "Default": (lambda x: C.Default(x, None), lambda v: v, True),
    "Renamed-docs": (lambda x: ("n" / x) * "doc", lambda v: v, True),
    "Bitwise-stream": (lambda x: C.Bitwise(C.Struct("b" / C.BitsInteger(8), "e" / x)), lambda v: dict(b=1, e=v), True),
    "Transformed": (lambda x: C.Transformed(x, lambda d: d, None, lambda d: d, None), lambda v: v, True),
}


MIN1 = {"Struct", "Struct-anon", "Sequence", "FocusedSeq", "Prefixed", "PrefixedArray", "FixedSized", "Padded", "Bitwise-stream"}


def valid_chain(chain):
    """GreedyRange needs an element that consumes at least one byte whenever it succeeds (a zero-width element that
    always succeeds denotes an infinite list: invalid parameterisation, not a library matter)"""
    for i, name in enumerate(chain):
        if name == "GreedyRange" and i + 1 < len(chain) and chain[i + 1] not in MIN1:
            return False
    return True


def chain_construct(chain, leaf):
    con = leaf
    for name in reversed(chain):
        con = WRAPPERS[name][0](con)
    return con


def chain_value(chain):
    v = None
    for name in reversed(chain):
        v = WRAPPERS[name][1](v)
    return v


def error_chain_check(ctx, chain, data):
    if not valid_chain(chain):
        return None
    log = []
    twin = chain_construct(chain, Probe(log))
    real = chain_construct(chain, C.Error)
    kw = dict(sel=0)
    # parse
    del log[:]
    try:
        t = call(twin.parse, data, **kw)
    except ProbeReached:
        t = None
    reached = "parse" in log
    r = call(real.parse, data, **kw)
    ctx.record([chain, "parse", data], reached, ["error/parse-" + ("reached" if reached else "not-reached"), "error/depth=%d" % len(chain)])
    if reached:
        if not is_exc(r, C.ExplicitError):
            # a chain that cannot work on this input whatever the leaf does (Peek/Select/GreedyRange restoring the position of a
            # non-seekable bit stream after something was consumed) reports that, and parsing is aborted all the same
            inert_leaf = C.Byte if chain and chain[-1] == "GreedyRange" else C.Pass     # (GreedyRange(Pass) never returns)
            inert = call(chain_construct(chain, inert_leaf).parse, data, **kw)
            if not r.ok and not inert.ok and type(inert.exc) is type(r.exc) and isinstance(r.exc, C.StreamError):
                ctx.record([chain, "parse-inoperable", data], False, ["error/parse-chain-inoperable"])
            else:
                return Failure("C13/error/parse-swallowed/%s" % swallowing(chain), "Error reached when parsing %s through %s but the outcome was %r" % (data.hex(), " > ".join(chain), r))
    else:
        if r.ok != t.ok or (not r.ok and type(r.exc) is not type(t.exc)):
            return Failure("C13/error/twin-mismatch", "probe not reached yet outcomes differ: twin %r, real %r (chain %s)" % (t, r, chain))
    # build
    v = chain_value(chain)
    del log[:]
    try:
        t = call(twin.build, v, **kw)
    except ProbeReached:
        t = None
    reached = "build" in log
    r = call(real.build, v, **kw)
    ctx.record([chain, "build", repr(v)], reached, ["error/build-" + ("reached" if reached else "not-reached")])
    if reached:
        if not is_exc(r, C.ExplicitError):
            return Failure("C13/error/build-swallowed/%s" % swallowing(chain), "Error reached when building %r through %s but the outcome was %r" % (v, " > ".join(chain), r))
    return None


def swallowing(chain):
    for name in reversed(chain):
        if name in ("Select-first", "Select-second", "Optional", "GreedyRange", "Peek", "Union"):
            return name
    return chain[-1] if chain else "top"


DATA = [bytes([6, 5, 4, 3, 2, 1, 1, 1, 1, 1, 1, 1, 1, 1, 1, 1]), bytes([1] * 24), bytes([12] + [1] * 30), b"\x02\x01", b"", bytes([20, 9, 1, 0, 1, 0xfe, 1, 1, 1, 1, 1, 1, 1, 1, 1, 1, 1, 1, 1, 1, 1, 1])]


def campaign_error_enum(ctx):
    names = sorted(WRAPPERS)
    chains = [[a] for a in names] + [[a, b] for a in names for b in names]
    for i, chain in enumerate(chains):
        if i % ctx.nshards != ctx.shard:
            continue
        for data in (DATA if ctx.thorough or len(chain) == 1 else DATA[:3]):
            if ctx.check_case([chain, data], lambda case: error_chain_check(ctx, case[0], case[1])):
                break
    ctx.exhaustive("Error below every chain of depth <= 2 over %d wrappers" % len(names))
campaign_error_enum.shards = (4, 8)


def campaign_error_random(ctx):
    names = sorted(WRAPPERS)
    strat = st.tuples(st.lists(st.sampled_from(names), min_size=3, max_size=4), st.one_of(st.sampled_from(DATA), st.binary(max_size=24))).map(list)

    def oracle(case):
        return error_chain_check(ctx, case[0], case[1])
    ctx.search(strat, oracle, ctx.budget(8000, 120000))
campaign_error_random.shards = (2, 8)


CAMPAIGNS = {"const": campaign_const, "validators": campaign_validators, "collections": campaign_collections, "constctx": campaign_constctx, "rejected": campaign_rejected, "enum": campaign_enum, "flags": campaign_flags,
             "mapping": campaign_mapping, "error_enum": campaign_error_enum, "error_random": campaign_error_random}


def replay(campaign, case):
    class _C:
        def record(self, *a, **k): pass
    c = _C()
    if campaign.startswith("error"):
        return error_chain_check(c, case[0], case[1])
    if campaign == "collections":
        return collection_oracle(c)(case)
    if campaign == "constctx":
        return constctx_oracle(c)(case)
    if campaign == "rejected":
        return rejected_oracle(c)(case)
    return {"const": const_oracle, "validators": validator_oracle, "enum": enum_oracle, "flags": flags_oracle, "mapping": mapping_oracle}[campaign](c)(case)
