"""C11 — context expressions mean what their Python spelling means, and print as it."""
import itertools

from hypothesis import strategies as st

from pbt import exprs as X
from pbt.harness import Failure, call, short

RULE = ("expression ASTs over the full operator table (+ - * / // % ** ^ << >> & | unary - + ~, six comparisons) with "
        "leaves this.a, this['b'], this._.c, obj_, len_/sum_/min_/max_/abs_ helpers and int/bool/str/bytes/float "
        "constants on either side; bounded-exhaustive: all depth<=1 trees over the full leaf set on small-integer "
        "contexts, all depth-2 trees over a reduced operator/leaf set; random trees to depth 4 on random typed contexts; "
        "oracle: independent evaluator with the operator module, and eval(repr(expr)) with placeholders bound; "
        "non-trivial = depth>=2 or a reflected (constant-left) operand or a non-integer constant")
ASSUMPTIONS = ["'~' means logical not (docs/meta.rst)", "trees mixing this and obj_ are excluded (no documented calling convention)",
               "list_, 'in', and/or/not keywords excluded (documented deficiencies)",
               "cases whose native value would be astronomically large are skipped (counted)"]

ENV_FUNCS = {"len_": len, "sum_": sum, "min_": min, "max_": max, "abs_": abs}


def same_value(a, b):
    if type(a) is not type(b):
        return False
    if isinstance(a, float):
        return repr(a) == repr(b)
    if isinstance(a, complex):
        return repr(a) == repr(b)
    try:
        return bool(a == b)
    except Exception:  # noqa
        return False


def same_outcome(want, got):
    if want.ok != got.ok:
        return False
    if want.ok:
        return same_value(want.value, got.value)
    return type(want.exc) is type(got.exc)


def has_reflected(ast):
    k = ast[0]
    if k == "bin":
        return (X.is_const(ast[2]) and not X.is_const(ast[3])) or has_reflected(ast[2]) or has_reflected(ast[3])
    if k in ("un", "fn"):
        return has_reflected(ast[2])
    return False


def has_nonint_const(ast):
    k = ast[0]
    if k == "const":
        return not (isinstance(ast[1], int) and not isinstance(ast[1], bool))
    if k == "bin":
        return has_nonint_const(ast[2]) or has_nonint_const(ast[3])
    if k in ("un", "fn"):
        return has_nonint_const(ast[2])
    return False


def unary_nested(ast, under=False):
    """a unary node that is an operand of another operator"""
    k = ast[0]
    if k == "un":
        return under or unary_nested(ast[2], True)
    if k == "bin":
        return unary_nested(ast[2], True) or unary_nested(ast[3], True)
    if k == "fn":
        return unary_nested(ast[2], False)
    return False


def python_preempts(ast):
    """'s' % expr and b'x' % expr are handled by str/bytes.__mod__ itself (the placeholder is taken as a
    mapping) and never reach the expression object: Python semantics, not the library's"""
    k = ast[0]
    if k == "bin":
        if ast[1] == "%" and X.is_const(ast[2]) and isinstance(ast[2][1], (str, bytes)):
            return True
        return python_preempts(ast[2]) or python_preempts(ast[3])
    if k in ("un", "fn"):
        return python_preempts(ast[2])
    return False


def top(ast):
    return ast[1] if ast[0] in ("bin", "un", "fn") else ast[0]


def oracle_factory(ctx):
    def oracle(case):
        ast, cx, obj = case
        rs = X.roots(ast)
        if python_preempts(ast):
            ctx.tally("skipped/str-mod-preempts")
            return None
        if not rs or len(rs) > 1:
            ctx.tally("skipped/no-or-mixed-placeholder")
            return None
        try:
            want = call(X.evaluate, ast, cx, obj)
        except X.TooBig:
            ctx.tally("skipped/too-big")
            return None
        if not want.ok and isinstance(want.exc, X.TooBig):
            ctx.tally("skipped/too-big")
            return None
        if not want.ok and isinstance(want.exc, (MemoryError, OverflowError)) and "too large" in str(want.exc):
            pass
        nontrivial = X.depth(ast) >= 2 or has_reflected(ast) or has_nonint_const(ast)
        ctx.record(case, nontrivial, ["depth=%d" % min(X.depth(ast), 4), "root=" + "".join(sorted(rs)),
                                      "outcome=" + ("value" if want.ok else type(want.exc).__name__)])
        e = X.to_expr(ast)
        if "this" in rs:
            got = call(e, cx)
        else:
            got = call(e, obj, cx)
        if not same_outcome(want, got):
            return Failure("C11/eval/%s" % top(ast), "%s on ctx=%s obj=%s: library %r, native %r" % (
                X.show(ast), short(cx), short(obj), got, want))
        r = call(repr, e)
        if not r.ok:
            return Failure("C11/repr/raises", "repr(%s) raised %r" % (X.show(ast), r))
        env = dict(ENV_FUNCS)
        env["this"] = cx
        env["obj_"] = obj
        env["__builtins__"] = {}
        ev = call(eval, r.value, env)
        if not same_outcome(want, ev):
            b = "C11/repr/unary-operand" if unary_nested(ast) else "C11/repr/%s" % top(ast)
            return Failure(b, "repr(%s) == %r evaluates to %r, native %r (ctx=%s obj=%s)" % (
                X.show(ast), r.value, ev, want, short(cx), short(obj)))
        return None
    return oracle


# ---------------------------------------------------------------------------------------------
# bounded-exhaustive enumeration
# ---------------------------------------------------------------------------------------------
# (paths may also index into lists: this.v[0] - the key 0 is as good as any other)
THIS_LEAVES = [["this", ["a"], "attr"], ["this", ["b"], "item"], ["this", ["_", "c"], "attr"], ["this", ["v", 0], "item"], ["this", ["v", 1], "item"]]
OBJ_LEAVES = [["obj", []]]
CONST_LEAVES = [["const", v] for v in (-2, 0, 1, 2, 3, True, "s", b"x", 1.5, (2,), (1, 2), ())]


def contexts_small(vals=(-2, -1, 0, 1, 2, 3)):
    for a, b, c in itertools.product(vals, repeat=3):
        yield {"a": a, "b": b, "_": {"c": c}, "v": [c, a]}


def depth1_trees():
    out = []
    for root_leaves in (THIS_LEAVES, OBJ_LEAVES):
        for op in X.ARITH + X.COMPARE:
            for l in root_leaves + CONST_LEAVES:
                for r in root_leaves + CONST_LEAVES:
                    if X.is_const(l) and X.is_const(r):
                        continue
                    out.append(["bin", op, l, r])
        for op in X.UNOPS:
            for l in root_leaves:
                out.append(["un", op, l])
        for l in root_leaves:
            out.append(l)
    return out


D2_OPS = ["+", "-", "*", "//", "%", "**", "<<", "&", "|", "^", "<", "=="]
D2_LEAVES = [["this", ["a"], "attr"], ["const", 2]]


def depth2_trees():
    d1 = list(D2_LEAVES)
    for op in D2_OPS:
        for l in D2_LEAVES:
            for r in D2_LEAVES:
                if X.is_const(l) and X.is_const(r):
                    continue
                d1.append(["bin", op, l, r])
    for op in X.UNOPS:
        d1.append(["un", op, D2_LEAVES[0]])
    out = []
    for op in D2_OPS:
        for l in d1:
            for r in d1:
                if X.depth(l) == 0 and X.depth(r) == 0:
                    continue
                if not (X.has_placeholder(l) or X.has_placeholder(r)):
                    continue
                out.append(["bin", op, l, r])
    for op in X.UNOPS:
        for l in d1:
            if X.depth(l) >= 1 and X.has_placeholder(l):
                out.append(["un", op, l])
    return out


def campaign_enum_depth1(ctx):
    orc = oracle_factory(ctx)
    trees = depth1_trees()
    cxs = list(contexts_small())
    if not ctx.thorough:
        cxs = cxs[::19]  # 12 contexts, includes negative/zero/positive mixes
    n = 0
    for i, t in enumerate(trees):
        if i % ctx.nshards != ctx.shard:
            continue
        for cx in cxs:
            obj = cx["a"]
            ctx.check_case([t, cx, obj], orc)
            n += 1
    # every helper over every operator node that has a non-numeric constant on one side (text, bytes, tuples: the constants whose
    # printed form differs most between str() and repr())
    for i, t in enumerate(trees):
        if i % ctx.nshards != ctx.shard or t[0] != "bin" or t[1] not in ("+", "*", "%", "==", "!=", "<"):
            continue
        if not any(X.is_const(x) and isinstance(x[1], (str, bytes, tuple)) for x in (t[2], t[3])):
            continue
        for f in sorted(X.FUNCS):
            for cx in cxs[:4]:
                ctx.check_case([["fn", f, t], cx, cx["a"]], orc)
    ctx.exhaustive("C11: all depth<=1 trees over {this.a, this['b'], this._.c | obj_} x 9 constants x 18 binary + 3 unary operators"
                   + (" x all 216 contexts a,b,c in -2..3" if ctx.thorough else " x 12 contexts"))
campaign_enum_depth1.shards = (2, 8)


def campaign_enum_depth2(ctx):
    orc = oracle_factory(ctx)
    trees = depth2_trees()
    vals = (-2, -1, 0, 1, 2, 3)
    stride = 1 if ctx.thorough else 7
    for i, t in enumerate(trees):
        if i % ctx.nshards != ctx.shard:
            continue
        if (i // ctx.nshards) % stride:
            continue
        for a in (vals if ctx.thorough else (-2, 0, 3)):
            cx = {"a": a, "b": 1, "_": {"c": 2}}
            ctx.check_case([t, cx, a], orc)
    if ctx.thorough:
        ctx.exhaustive("C11: all depth-2 trees over leaves {this.a, 2} x operators %s + unary, a in -2..3" % " ".join(D2_OPS))
campaign_enum_depth2.shards = (4, 16)


# ---------------------------------------------------------------------------------------------
# random deeper trees on typed contexts
# ---------------------------------------------------------------------------------------------
small_ints = st.integers(-3, 5)
ctx_strategy = st.fixed_dictionaries({
    "a": small_ints, "b": small_ints,
    "s": st.sampled_from(["", "s", "ab"]), "by": st.sampled_from([b"", b"x", b"yz"]),
    "f": st.sampled_from([0.0, -0.0, 1.5, -2.25, 1e300]), "flag": st.booleans(),
    "items": st.lists(st.integers(-3, 9), max_size=4),
    "_": st.fixed_dictionaries({"c": small_ints, "_": st.fixed_dictionaries({"d": small_ints})}),
    "_params": st.fixed_dictionaries({"k": small_ints}),
})


def leaves_for(root):
    if root == "this":
        paths = [(["a"], "attr"), (["a"], "item"), (["b"], "item"), (["_", "c"], "attr"), (["_", "c"], "item"),
                 (["_", "_", "d"], "attr"), (["_params", "k"], "attr"), (["s"], "attr"), (["by"], "attr"),
                 (["f"], "attr"), (["flag"], "attr"), (["items"], "attr"), (["items", 0], "item"), (["items", 1], "item"), (["items", -1], "item")]
        ph = st.sampled_from([["this", p, s] for p, s in paths])
    else:
        ph = st.sampled_from([["obj", []], ["obj", []], ["obj", ["x"]], ["obj", [0]], ["obj", [0, 1]]])
    consts = st.one_of(st.integers(-3, 6), st.booleans(), st.sampled_from(["", "s", "q"]), st.sampled_from([b"", b"x"]),
                       st.sampled_from([0.5, -1.0, 2.0]), st.sampled_from([(), (1,), (2, 3), ("s",)])).map(lambda v: ["const", v])
    return ph, consts


def tree_strategy(root):
    ph, consts = leaves_for(root)
    leaf = st.one_of(ph, ph, consts)

    def extend(children):
        binop = st.tuples(st.sampled_from(X.ARITH + X.COMPARE), children, children).filter(
            lambda t: X.has_placeholder(t[1]) or X.has_placeholder(t[2])).map(lambda t: ["bin", t[0], t[1], t[2]])
        unop = st.tuples(st.sampled_from(sorted(X.UNOPS)), children).filter(
            lambda t: X.has_placeholder(t[1])).map(lambda t: ["un", t[0], t[1]])
        # the helpers take a placeholder or any expression over one: len_(this.n * "ab"), abs_(this.a == "1"), sum_(this.v + (2,))
        fn = st.tuples(st.sampled_from(sorted(X.FUNCS)), st.one_of(ph, children.filter(X.has_placeholder))).map(lambda t: ["fn", t[0], t[1]])
        return st.one_of(binop, binop, binop, unop, fn)
    return st.recursive(leaf, extend, max_leaves=8).filter(lambda t: X.has_placeholder(t) and X.depth(t) <= 5)


@st.composite
def random_cases(draw):
    root = draw(st.sampled_from(["this", "this", "obj"]))
    t = draw(tree_strategy(root))
    cx = draw(ctx_strategy)
    if root == "obj":
        obj = draw(st.one_of(small_ints, st.fixed_dictionaries({"x": small_ints}), st.sampled_from(["s", b"x", 1.5]),
                             st.lists(st.one_of(small_ints, st.lists(small_ints, min_size=2, max_size=2)), min_size=1, max_size=2)))
    else:
        obj = None
    return [t, cx, obj]


def campaign_random(ctx):
    ctx.search(random_cases(), oracle_factory(ctx), ctx.budget(4000, 160000))
campaign_random.shards = (2, 16)


CAMPAIGNS = {"enum_depth1": campaign_enum_depth1, "enum_depth2": campaign_enum_depth2, "random": campaign_random}


def replay(campaign, case):
    class _C:
        def record(self, *a, **k): pass
        def tally(self, *a, **k): pass
    return oracle_factory(_C())(case)
