"""C04 — a compiled construct behaves exactly like the construct it was compiled from."""
import io

from hypothesis import strategies as st

import construct as C

from pbt import exprs as X
from pbt import grammar as G
from pbt import refmodel as R
from pbt import values as V
from pbt.mutate import mutated
from pbt.harness import Failure, call, short
from pbt.props.c02 import lib_eq
from pbt.props.c03 import focus_kind

RULE = ("spec trees restricted to the compiler's documented feature set (no lambdas, no _index/Index, no parsed hooks, no discard, no "
        "_subcons/_io) with every context parameter given as an expression object (all operators, reflected forms, int/bool/str/"
        "bytes constants, unary operators, len_), dependent probe members after composites so that context values produced by "
        "generated code influence later bytes (Bytes(this.n), Switch(this.kind,...), IfThenElse(this.t == 'A', ...), Computed "
        "arithmetic over earlier members and outer scopes); inputs: values the interpreter builds (incl. falsy values, None for "
        "derived members, lengths above 255) and byte strings it accepts (canonical and accepted mutations); oracle: interpreter "
        "as reference where it succeeds: compiled.parse == parse, compiled.build == build, compiled.sizeof same value or both "
        "SizeofError; compile() raising is counted and the spec discarded. non-trivial = the generated source contains an emitted "
        "composite and a member depends on a context value")
ASSUMPTIONS = ["inputs the original rejects are out of scope (generated code omits checks, documented)",
               "documented restrictions: _index/Index, parsed hooks, discard, _subcons/_io, lambdas, Debugger, look-ahead over truncated data"]

FRAG = V.SEQUENTIAL - {"index", "bomstr", "compressed", "lamlen"}      # (lambdas other than Rebuild functions: documented exclusion)


def context_dependent(spec):
    return any(X.roots(e) for e, _ in G.exprs_in(spec))


def compile_it(con):
    o = call(con.compile)
    return o


def refusing_lookahead(sub):
    """a look-ahead that fails by REFUSING bytes that are there (a constant that does not match): generated code raises the same
    ConstError, so a Peek over it must give None and rewind on both sides"""
    return sub[0] == "const" or (sub[0] == "struct" and all(s[0] in ("const", "int") for _, s in sub[1]) and any(s[0] == "const" for _, s in sub[1]))


def peek_failed(spec, value):
    """did a Peek in this (Struct-nested) spec swallow a failure?  Its look-ahead then ran over truncated or unfit data, where
    generated code is documented to differ"""
    if spec[0] == "struct" and isinstance(value, dict):
        for name, sub in spec[1]:
            if name and sub[0] == "peek" and dict.get(value, name) is None and not refusing_lookahead(sub[1]):
                return True
            if name and sub[0] == "struct" and peek_failed(sub, dict.get(value, name)):
                return True
    return False


def oracle_factory(ctx):
    def oracle(case):
        spec, params, value, extra = case[:4]
        skip_build = len(case) > 4 and case[4]      # seeking campaign: no value of its own (short built bytes would be truncated look-ahead)
        con = G.realise(spec)
        cc = compile_it(con)
        fk = focus_kind(spec)
        where = "spec=%s params=%s" % (short(spec, 700), params)
        if not cc.ok:
            ctx.record(case, False, ["compile-raises/" + type(cc.exc).__name__])
            if not isinstance(cc.exc, (C.ConstructError, NotImplementedError)):
                return Failure("C04/compile-raises/%s/%s" % (fk, type(cc.exc).__name__), "compile() raised %r | %s" % (cc, where))
            return None
        comp = cc.value
        emitted = "def parse_struct" in comp.source or "def parse_sequence" in comp.source or "ListContainer(" in comp.source
        ctx.record(case, emitted and context_dependent(spec), ["compiled", "ctx-dependent" if context_dependent(spec) else "ctx-free"] + ["kind/" + k for k in G.kinds(spec)])
        # build
        ib = call(con.build, value, **params) if not skip_build else None
        datas = list(extra)
        if ib is not None and ib.ok:
            cb = call(comp.build, value, **params)
            if not cb.ok:
                return Failure("C04/build-raises/%s/%s" % (fk, type(cb.exc).__name__), "compiled build(%s) raised %r, interpreter builds %s | %s" % (short(value), cb, ib.value.hex(), where))
            if cb.value != ib.value:
                return Failure("C04/build-differs/%s" % fk, "compiled build(%s) -> %s, interpreter -> %s | %s" % (short(value), cb.value.hex(), ib.value.hex(), where))
            datas.insert(0, ib.value)
        # parse
        for d in datas:
            ip = call(con.parse, d, **params)
            if not ip.ok:
                continue
            if skip_build and peek_failed(spec, ip.value):
                ctx.tally("seeking/look-ahead-failed (excluded by documentation)")
                continue
            cp = call(comp.parse, d, **params)
            if not cp.ok:
                return Failure("C04/parse-raises/%s/%s" % (fk, type(cp.exc).__name__), "compiled parse(%s) raised %r, interpreter -> %s | %s" % (d.hex(), cp, short(ip.value), where))
            if not lib_eq(cp.value, ip.value):
                return Failure("C04/parse-differs/%s" % fk, "compiled parse(%s) -> %s, interpreter -> %s | %s" % (d.hex(), short(cp.value), short(ip.value), where))
            # what was parsed by generated code must build like what the interpreter parsed
            ib2 = call(con.build, ip.value, **params)
            if ib2.ok:
                cb2 = call(comp.build, cp.value, **params)
                if not cb2.ok or cb2.value != ib2.value:
                    return Failure("C04/rebuild-differs/%s" % fk, "compiled build(compiled parse(%s)) -> %r, interpreter -> %s | %s" % (d.hex(), cb2, ib2.value.hex(), where))
        # sizeof
        # (the same compiled object is asked again under other keyword contexts: every answer is the original's answer for THAT context)
        contexts = [params] + ([{k: v + 1 for k, v in params.items()}, {k: 0 for k in params}, params] if params else [])
        for kw in contexts:
            isz = call(con.sizeof, **kw)
            csz = call(comp.sizeof, **kw)
            if isz.ok != csz.ok or (isz.ok and isz.value != csz.value) or (not isz.ok and type(isz.exc) is not type(csz.exc)):
                return Failure("C04/sizeof-differs/%s" % fk, "compiled sizeof(%s) -> %r, interpreter -> %r | %s" % (kw, csz, isz, where))
        return None
    return oracle


@st.composite
def cases(draw, depth=3):
    spec, params, value = draw(V.cases(frag=FRAG, depth=depth, rootrefs=True))
    extra = []
    try:
        data = R.ref_build(spec, value, params)
        for _ in range(draw(st.integers(0, 2))):
            extra.append(draw(mutated(data, max_ops=1)))
    except (R.Reject, R.ForeignError):
        pass
    return [spec, params, value, extra]


def campaign_grammar(ctx):
    ctx.search(cases(3), oracle_factory(ctx), ctx.budget(20000, 400000))
campaign_grammar.shards = (6, 16)


# ---------------------------------------------------------------------------------------------
# probes: context produced by generated code and consumed by a later member, with rich expressions
# ---------------------------------------------------------------------------------------------
B1 = ["int", 1, False, "b", "alias"]


@st.composite
def probe_cases(draw):
    """Struct(producer, consumer): the consumer's bytes depend on the context value the producer's generated code stored"""
    prod = draw(st.sampled_from(["int", "enum", "enum-odd-labels", "flag", "mapping", "varint", "const", "constbytes", "computed", "rebuild", "default", "nested", "bytes", "pstr", "array", "parray", "flagsenum"]))
    name = "p"
    ref = ["this", [name], draw(st.sampled_from(["attr", "item"]))]
    members = []
    consts = [0, 1, 2, 3]
    if prod == "int":
        members.append([name, draw(st.sampled_from([B1, ["int", 2, True, "l", "alias"], ["int", 3, False, "b", "alias"]]))])
        e = ref
    elif prod == "varint":
        members.append([name, ["varint"]])
        e = ref
    elif prod == "enum":
        members.append([name, ["enum", B1, [["A", 1], ["B", 2], ["C", 3]], draw(st.sampled_from(["kw", "intenum"]))]])
        e = ref
        consts = ["A", "B", "C", 0, 1]
    elif prod == "flag":
        members.append([name, ["flag"]])
        e = ref
        consts = [True, False, 0, 1]
    elif prod == "enum-odd-labels":
        # labels that are falsy or look like other things: the table is consulted by presence, not by truthiness
        members.append([name, ["enum", B1, [["", 0], ["0", 1], ["None", 2]], "kw"]])
        e = ref
        consts = ["", "0", "None", 0, 3]
    elif prod == "mapping":
        members.append([name, ["mapping", B1, [["x", 1], ["y", 2], ["z", 3]]]])
        e = ref
        consts = ["x", "y", "z"]
    elif prod == "const":
        members.append([name, ["const", 2, B1]])
        e = ref
    elif prod == "constbytes":
        members.append([name, ["const", b"ab", None]])
        e = ["fn", "len", ref]
        consts = [2, 0, 1]
    elif prod == "computed":
        members.append(["q", B1])
        members.append([name, ["computed", ["bin", "+", ["this", ["q"], "attr"], ["const", 1]]]])
        e = ref
    elif prod == "rebuild":
        members.append([name, ["rebuild", B1, ["fn", "len", ["this", ["later"], "attr"]]]])
        e = ref
    elif prod == "default":
        members.append([name, ["default", B1, 2]])
        e = ref
    elif prod == "nested":
        members.append(["s", ["struct", [[name, B1], ["x", ["bytes", ["this", [name], "attr"]]]]]])
        e = ["this", ["s", name], "attr"]
    elif prod == "bytes":
        members.append([name, ["bytes", 2]])
        e = ["fn", "len", ref]
        consts = [2, b"ab", 0]
    elif prod == "pstr":
        members.append([name, ["pascal", B1, "utf8"]])
        e = ["fn", "len", ref]
        consts = [0, 1, 2, "a"]
    elif prod == "array":
        members.append([name, ["array", 2, B1]])
        e = draw(st.sampled_from([["fn", "len", ref], ["fn", "sum", ref], ["fn", "max", ref]]))
    elif prod == "parray":
        members.append([name, ["parray", B1, B1]])
        e = ["fn", "len", ref]
    else:
        members.append([name, ["flagsenum", B1, [["r", 1], ["w", 2]], "kw"]])
        e = ["this", [name, "r"], "attr"]
        consts = [True, False]
    cons = draw(st.sampled_from(["bytes", "array", "switch", "ite-eq", "ite-cmp", "if", "ifnot", "computed", "padded", "check", "nestedref", "parrayref", "rebuildexpr", "stopif"]))
    c = draw(st.sampled_from(consts))
    intlike = prod in ("int", "varint", "const", "constbytes", "computed", "rebuild", "default", "nested", "array", "parray", "bytes", "pstr")
    if cons in ("bytes", "array", "padded", "rebuildexpr") and not intlike:
        cons = "ite-eq"
    if cons == "bytes":
        arith = draw(st.sampled_from([e, ["bin", "+", e, ["const", 1]], ["bin", "*", ["const", 2], e], ["bin", "&", e, ["const", 3]], ["bin", "%", e, ["const", 4]],
                                      ["bin", ">>", e, ["const", 1]], ["bin", "//", e, ["const", 2]], ["bin", "-", ["const", 300], e] if False else ["bin", "^", e, ["const", 1]],
                                      ["un", "+", e], ["bin", "+", ["un", "-", ["un", "-", e]], ["const", 0]], ["bin", "**", e, ["const", 2]] if False else ["bin", "|", e, ["const", 1]]]))
        members.append(["later", ["bytes", arith]])
    elif cons == "array":
        members.append(["later", ["array", draw(st.sampled_from([e, ["bin", "+", e, ["const", 1]], ["bin", "&", e, ["const", 1]]])), B1]])
    elif cons == "padded":
        members.append(["later", ["padded", ["bin", "+", e, ["const", 2]], B1, b"\xee"]])
    elif cons == "switch":
        cases_ = [[k, ["const", bytes([0xa0 + i]), None]] for i, k in enumerate(consts)]
        members.append(["later", ["switch", e, cases_, draw(st.sampled_from([None, ["const", b"\xaf", None]]))]])
    elif cons == "ite-eq":
        cond = draw(st.sampled_from([["bin", "==", e, ["const", c]], ["bin", "!=", e, ["const", c]], ["bin", "==", ["const", c], e]]))
        members.append(["later", ["ite", cond, ["const", b"Y", None], ["const", b"N", None]]])
    elif cons == "ite-cmp":
        if not intlike:
            cond = ["bin", "==", e, ["const", c]]
        else:
            cond = draw(st.sampled_from([["bin", "<", e, ["const", 2]], ["bin", ">=", e, ["const", 2]], ["bin", "<", ["const", 1], e],
                                         ["bin", "==", ["bin", "&", e, ["const", 1]], ["const", 1]], ["bin", "|", ["bin", "==", e, ["const", 1]], ["bin", "==", e, ["const", 3]]],
                                         ["bin", "&", ["bin", ">", e, ["const", 0]], ["bin", "<", e, ["const", 3]]], ["un", "~", ["bin", "==", e, ["const", 2]]]]))
        members.append(["later", ["ite", cond, ["const", b"Y", None], ["const", b"N", None]]])
    elif cons == "if":
        members.append(["later", ["if", e if not intlike else ["bin", ">", e, ["const", 1]], B1]])
    elif cons == "ifnot":
        members.append(["later", ["if", ["un", "~", e], B1]])
    elif cons == "computed":
        members.append(["later", ["computed", draw(st.sampled_from([e, ["bin", "==", e, ["const", c]], ["un", "~", e], ["bin", "+", e, e] if intlike else e,
                                                                     ["bin", "*", ["un", "-", e], ["const", 2]] if intlike else e, ["bin", "**", ["un", "-", e], ["const", 2]] if intlike else e]))]])
        members.append(["tail", ["bytes", 1]])
    elif cons == "check":
        members.append([None, ["check", ["bin", "==", e, e]]])
        members.append(["later", B1])
    elif cons == "nestedref":
        up = ["this", ["_"] + e[1], "attr"] if e[0] == "this" else e
        members.append(["later", ["struct", [["k", B1], ["v", ["ite", ["bin", "==", up, ["const", c]], ["const", b"Y", None], ["const", b"N", None]]]]]])
    elif cons == "parrayref":
        # elements of a PrefixedArray run inside the FocusedSeq of its documented expansion: the enclosing Struct is two levels up,
        # and the expansion's own count is one level up
        up2 = ["this", ["_", "_"] + e[1], "attr"] if e[0] == "this" else e
        members.append(["later", ["parray", B1, ["struct", [["k", B1], ["v", ["ite", ["bin", "==", up2, ["const", c]], ["const", b"Y", None], ["const", b"N", None]]],
                                                           ["n", ["computed", ["this", ["_", "count"], "attr"]]]]]]])
    elif cons == "rebuildexpr":
        members.append(["later", ["rebuild", ["int", 2, False, "b", "alias"], ["bin", "+", ["bin", "*", e, ["const", 3]], ["const", 1]]]])
    else:
        members.append([None, ["stopif", ["bin", "==", e, ["const", c]]]])
        members.append(["later", B1])
    if prod == "rebuild" and not any(n == "later" and s[0] in ("bytes", "array") for n, s in members):
        members = [m for m in members if m[0] != name]
        members.insert(0, [name, B1])
    container = draw(st.sampled_from(["struct", "struct", "seq"]))
    if container == "seq" and prod != "rebuild" and all(n is not None or G.buildnone(s_) for n, s_ in members):
        # same members in a Sequence (built from a list; named members still land in the context)
        if prod == "default" and draw(st.booleans()):
            pass
        spec = ["seq", members]
    else:
        spec = ["struct", members]
    params = {}
    value = V.gen_value(draw, spec, R.top_scope(params, "build"))
    return [spec, params, value, []]


def campaign_probes(ctx):
    ctx.search(probe_cases(), oracle_factory(ctx), ctx.budget(16000, 300000))
campaign_probes.shards = (4, 16)


# ---------------------------------------------------------------------------------------------
# seeking and look-ahead emitters (Pointer, Peek, Union, Seek, Tell, RestreamData, NamedTuple): differential on inputs long
# enough for every look-ahead (look-ahead over truncated data is excluded by documentation); values for build are the
# interpreter's own parse results
# ---------------------------------------------------------------------------------------------
@st.composite
def seeking_cases(draw):
    names = [0]

    def fresh(p="f"):
        names[0] += 1
        return "%s%d" % (p, names[0])

    def small():
        return draw(st.sampled_from([B1, ["int", 2, False, "l", "alias"], ["int", 3, True, "b", "bi"], ["bytes", 2], ["flag"],
                                     ["struct", [["x", B1], ["y", ["int", 2, False, "b", "alias"]]], "ctor"], ["array", 2, B1, "ctor"],
                                     ["enum", B1, [["A", 1], ["B", 2]], "kw"], ["pstr", 3, "ascii"], ["prefixed", B1, ["gbytes"], False]]))

    def offset(ints):
        o = draw(st.sampled_from(["const", "const", "ref", "neg"] if ints else ["const", "const", "neg"]))
        if o == "const":
            return draw(st.integers(0, 12))
        if o == "neg":
            return -draw(st.integers(1, 8))
        base = ["this", [draw(st.sampled_from(ints))], draw(st.sampled_from(["attr", "item"]))]
        return draw(st.sampled_from([["bin", "%", base, ["const", 8]], ["bin", "&", base, ["const", 7]], ["bin", "+", ["bin", ">>", base, ["const", 5]], ["const", 1]]]))

    def members(depth, ints):
        out = []
        for _ in range(draw(st.integers(2, 5))):
            o = draw(st.sampled_from(["int", "int", "pointer", "pointer", "peek", "union", "tell", "seek", "restream", "namedtuple", "nested", "probe", "small"]))
            if o == "int":
                n = fresh("n")
                out.append([n, B1])
                ints.append(n)
            elif o == "pointer":
                out.append([fresh("p"), ["pointer", offset(ints), small()]])
            elif o == "peek":
                if draw(st.integers(0, 2)) == 0:
                    # a look-ahead for a magic value that is usually not there
                    magic = ["const", draw(st.sampled_from([b"\x00", b"AB", b"\x05\x05"])), None]
                    out.append([fresh("k"), ["peek", draw(st.sampled_from([magic, ["struct", [["x", B1], [None, magic]], "ctor"]]))]])
                else:
                    out.append([fresh("k"), ["peek", small()]])
            elif o == "union":
                a, b = fresh("u"), fresh("u")
                pf = draw(st.sampled_from([None, None, 0, 1, a, b]))
                if draw(st.integers(0, 3)) == 0:
                    # an anonymous member: parsed from the same start, selectable by position only
                    which = draw(st.integers(0, 1))
                    pf = {a: 0, b: 1}.get(pf, pf) if pf == (a, b)[which] else pf
                    a, b = (None, b) if which == 0 else (a, None)
                out.append([fresh("un"), ["union", pf, [[a, small()], [b, small()]]]])
            elif o == "tell":
                t = fresh("t")
                out.append([t, ["tell"]])
                if draw(st.booleans()):
                    # the offset reported while BUILDING goes into later bytes
                    out.append([fresh("d"), ["rebuild", B1, ["bin", "&", ["this", [t], "attr"], ["const", 255]]]])
            elif o == "seek":
                out.append([fresh("s") if draw(st.booleans()) else None, ["seek", draw(st.integers(0, 3)), draw(st.sampled_from([0, 1]))]])
            elif o == "restream":
                out.append([fresh("r"), ["restreamdata", draw(st.binary(min_size=4, max_size=6)), small()]])
            elif o == "namedtuple":
                out.append([fresh("nt"), ["namedtuple", ["a", "b"], draw(st.sampled_from([["array", 2, B1, "ctor"], ["seq", [[None, B1], [None, ["int", 2, False, "b", "alias"]]]],
                                                                                     ["struct", [["a", B1], ["b", ["bytes", 2]]], "ctor"]]))]])
            elif o == "nested" and depth > 0:
                out.append([fresh("g"), ["struct", members(depth - 1, []), "ctor"]])
            elif o == "probe" and ints:
                # later bytes depend on what generated code stored for an earlier member
                ref = ["this", [draw(st.sampled_from(ints))], "attr"]
                out.append([fresh("d"), ["bytes", ["bin", "&", ref, ["const", 3]]]])
            else:
                out.append([fresh("f"), small()])
        return out
    spec = ["struct", members(1, []), "ctor"]
    datas = [draw(st.binary(min_size=40, max_size=64)) for _ in range(draw(st.integers(1, 3)))]
    if draw(st.booleans()):
        datas.append(bytes(draw(st.lists(st.integers(0, 9), min_size=48, max_size=48))))      # small bytes: references stay in range
    return [spec, {}, None, datas, True]


# ---------------------------------------------------------------------------------------------
# bit-level constructs compiled on their own (compile() does not look inside Bitwise, which it links to the interpreter; the
# emitters of BitsInteger/Bit/Nibble/Octet/Flag/Padding only run when a bit-level construct is compiled directly and fed a
# stream of 0/1 bytes, which is what Bitwise hands to its inner construct)
# ---------------------------------------------------------------------------------------------
@st.composite
def bitlevel_cases(draw):
    members = []
    total = 0
    ints = []
    for i in range(draw(st.integers(1, 5))):
        o = draw(st.sampled_from(["bits", "bits", "bits", "bit", "nibble", "octet", "flag", "padding", "array", "dep"]))
        name = "b%d" % i
        if o == "bits":
            w = draw(st.integers(1, 24))
            swapped = draw(st.booleans()) and w % 8 == 0
            members.append([name, ["bits", w, draw(st.booleans()), swapped]])
            total += w
            if w <= 3 and not members[-1][1][2]:
                ints.append(name)
        elif o in ("bit", "nibble", "octet"):
            members.append([name, [o]])
            total += {"bit": 1, "nibble": 4, "octet": 8}[o]
            if o == "bit":
                ints.append(name)
        elif o == "flag":
            members.append([name, ["flag"]])
            total += 1
        elif o == "padding":
            n = draw(st.integers(0, 5))
            members.append([None, ["padding", n, b"\x00"]])
            total += n
        elif o == "array":
            n, w = draw(st.integers(0, 3)), draw(st.integers(1, 9))
            members.append([name, ["array", n, ["bits", w, draw(st.booleans()), False], "ctor"]])
            total += n * w
        elif ints:
            # width-dependent member: a later field whose presence depends on an earlier bit field
            ref = ["this", [draw(st.sampled_from(ints))], "attr"]
            members.append([name, ["if", ref, ["bits", 3, False, False]]])
            total += 3
    spec = ["struct", members, "ctor"]
    datas = [bytes(draw(st.lists(st.integers(0, 1), min_size=total + 4, max_size=total + 8))) for _ in range(draw(st.integers(1, 3)))]
    return [spec, {}, None, datas, True]


def campaign_bitlevel(ctx):
    ctx.search(bitlevel_cases(), oracle_factory(ctx), ctx.budget(6000, 100000))
campaign_bitlevel.shards = (2, 8)


# ---------------------------------------------------------------------------------------------
# every scope kind and reference path of C07 (Struct/Sequence/FocusedSeq/Union nestings, repetitions, this._.x, _root, _params,
# mode flags) through the compiler: the context objects built by generated code must resolve like the interpreter's
# ---------------------------------------------------------------------------------------------
@st.composite
def scope_cases(draw):
    from pbt.props import c07
    def usable(c):
        if any(l.startswith("path/index") for l in c[3]):       # (_index: documented exclusion)
            return False
        # a Union with parsefrom=None consumes nothing: as GreedyRange element it denotes an endless list (invalid parameterisation;
        # C07 discards these through its model, which refuses zero-width repetition)
        if any(n[0] == "grange" and n[1][0] == "union" for n in G.walk(c[0])):
            return False
        return not any(G.discards(n) for n in G.walk(c[0]))      # (discard=: documented exclusion)
    spec, params, value, labels = draw(c07.cases().filter(usable))
    return [spec, params, value, []]


def campaign_scopes(ctx):
    ctx.search(scope_cases(), oracle_factory(ctx), ctx.budget(12000, 200000))
campaign_scopes.shards = (4, 16)


# ---------------------------------------------------------------------------------------------
# regions whose length prefix allows more than the body needs (accepted: the rest of the region is skipped), inside constructs that
# pad by what was consumed: generated code must measure consumption like the interpreter, not assume the body's static size
# ---------------------------------------------------------------------------------------------
@st.composite
def slack_cases(draw):
    body = draw(st.sampled_from([["bytes", 0], ["bytes", 2], B1, ["struct", [["x", B1], ["y", B1]], "ctor"], ["array", 2, B1, "ctor"]]))
    bsize = G.fixed_size(body)
    inner = ["prefixed", B1, body, False]
    wrap = draw(st.sampled_from(["padded", "aligned", "alignedstruct", "fixedsized", "none"]))
    if wrap == "padded":
        w = ["padded", bsize + 1 + draw(st.integers(2, 5)), inner, b"\x00"]
    elif wrap == "aligned":
        w = ["aligned", draw(st.integers(2, 5)), inner, b"\x00"]
    elif wrap == "alignedstruct":
        w = ["alignedstruct", draw(st.integers(2, 4)), [["q", inner], ["r", B1]]]
    elif wrap == "fixedsized":
        w = ["fixedsized", bsize + 1 + draw(st.integers(2, 5)), inner]
    else:
        w = inner
    spec = ["struct", [["h", B1], ["w", w], ["t", ["bytes", 2]]], "ctor"]
    datas = []
    for _ in range(draw(st.integers(1, 3))):
        slack = draw(st.integers(0, 2))
        datas.append(bytes([draw(st.integers(0, 255)), bsize + slack]) + draw(st.binary(min_size=24, max_size=24)))
    return [spec, {}, None, datas, True]


def campaign_slack(ctx):
    ctx.search(slack_cases(), oracle_factory(ctx), ctx.budget(2000, 40000))
campaign_slack.shards = (1, 4)


def campaign_seeking(ctx):
    ctx.search(seeking_cases(), oracle_factory(ctx), ctx.budget(12000, 200000))
campaign_seeking.shards = (4, 16)


CAMPAIGNS = {"grammar": campaign_grammar, "probes": campaign_probes, "seeking": campaign_seeking, "bitlevel": campaign_bitlevel, "scopes": campaign_scopes, "slack": campaign_slack}


def replay(campaign, case):
    class _C:
        def record(self, *a, **k): pass
        def tally(self, *a, **k): pass
    return oracle_factory(_C())(case)
