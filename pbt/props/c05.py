"""C05 — sizeof is exact when it answers and fails only with SizeofError."""
import io
import itertools

from hypothesis import strategies as st

import construct as C
from construct import this

from pbt import exprs as X
from pbt import grammar as G
from pbt import refmodel as R
from pbt import values as V
from pbt.harness import Failure, call, short
from pbt.props.c03 import focus_kind

RULE = ("(1) enumeration: every constructor parameter that accepts 'integer or context lambda' (Bytes, BytesInteger, BitsInteger, "
        "Array, LazyArray, Padding, Padded, Aligned, FixedSized, PaddedString, If, IfThenElse, Switch, Pointer, ProcessXor, "
        "ProcessRotateLeft, Computed, Check, Rebuild, Default, StopIf...) given as this.k / this['k'] / this._.k / this._params.k / "
        "attribute- and item-style lambdas, alone and nested in every wrapper (Struct, Sequence, FocusedSeq, Array, Prefixed, "
        "Padded, Aligned, If, Switch, Lazy*, Bitwise/ByteSwapped/BitsSwapped constructors, ...), with the key supplied and "
        "withheld: sizeof must return an int >= 0 or raise SizeofError; (2) generated spec trees with keyword parameters x "
        "contexts supplying all/some/none of the keys x generated values: whenever sizeof returns n every successful "
        "build_stream at offset o advances by n and parse_stream of built+trailing advances by n. non-trivial = "
        "context-dependent size with key supplied (exactness) or withheld (error contract)")
ASSUMPTIONS = ["exempt by documentation: negative lengths / modulus < 2 (PaddingError, negative results), transforms that read to end "
               "of stream (ProcessXor/RotateLeft/NullStripped) for the parse-advance clause, RestreamData with a Construct source",
               "sibling references under sizeof give SizeofError (no data exists; accepted xfails test_struct_issue_771/test_from_issue_692)"]


def sizeof_outcome(con, kw):
    o = call(con.sizeof, **kw)
    if o.ok:
        if isinstance(o.value, int) and not isinstance(o.value, bool) and o.value >= 0:
            return "int", o
        return "bad-value", o
    if isinstance(o.exc, C.SizeofError):
        return "SizeofError", o
    return "foreign", o


# ---------------------------------------------------------------------------------------------
# 1. parameter sites x reference forms x wrappers
# ---------------------------------------------------------------------------------------------
def ref_forms(levels):
    """ways to spell a reference to key 'k' that lives `levels` scopes out (0 = current)"""
    up = this
    for _ in range(levels):
        up = up._
    def lam_attr(c):
        for _ in range(levels):
            c = c._
        return c.k
    def lam_item(c):
        for _ in range(levels):
            c = c["_"]
        return c["k"]
    return {
        "this.k": up.k,
        "this['k']": up["k"],
        "this._params.k": this._params.k,
        "lambda-attr": lam_attr,
        "lambda-item": lam_item,
        "this.k+1": up.k + 1,
        "expr(len)": X.to_expr(["bin", "*", ["this", ["_"] * levels + ["k"], "attr"], ["const", 1]]),
    }


SITES = {
    "Bytes": lambda p: C.Bytes(p),
    "BytesInteger": lambda p: C.BytesInteger(p),
    "BytesInteger.swapped": lambda p: C.BytesInteger(2, swapped=p),
    "BitsInteger": lambda p: C.BitsInteger(p),
    "Array": lambda p: C.Array(p, C.Byte),
    "Array[]": lambda p: C.Short[p],
    "LazyArray": lambda p: C.LazyArray(p, C.Byte),
    "Padding": lambda p: C.Padding(p),
    "Padded": lambda p: C.Padded(p, C.Byte),
    "Aligned": lambda p: C.Aligned(p, C.Byte),
    "FixedSized": lambda p: C.FixedSized(p, C.GreedyBytes),
    "PaddedString": lambda p: C.PaddedString(p, "utf8"),
    "If": lambda p: C.If(p, C.Byte),
    "IfThenElse": lambda p: C.IfThenElse(p, C.Byte, C.Short),
    "Switch": lambda p: C.Switch(p, {1: C.Byte, 2: C.Short}, default=C.Int32ub),
    "Pointer": lambda p: C.Pointer(p, C.Byte),
    "ProcessXor": lambda p: C.ProcessXor(p, C.Byte),
    "ProcessRotateLeft": lambda p: C.ProcessRotateLeft(p, 1, C.Byte),
    "ProcessRotateLeft.group": lambda p: C.ProcessRotateLeft(1, p, C.Byte),
    "Computed": lambda p: C.Computed(p),
    "Check": lambda p: C.Check(p),
    "StopIf": lambda p: C.StopIf(p),
    "Rebuild": lambda p: C.Rebuild(C.Byte, p),
    "RepeatUntil": lambda p: C.RepeatUntil(p, C.Byte),
    "Seek": lambda p: C.Seek(p),
    "OffsettedEnd": lambda p: C.OffsettedEnd(p, C.GreedyBytes),
    "FocusedSeq.selector": lambda p: C.FocusedSeq(p, "a" / C.Byte, "b" / C.Byte),
    "Union.parsefrom": lambda p: C.Union(p, "a" / C.Byte, "b" / C.Byte),
}

# wrapper name -> (function(site construct) -> construct, number of scopes added between the wrapper's context and the site)
WRAPPERS = {
    "alone": (lambda s: s, 0),
    "Renamed": (lambda s: "x" / s, 0),
    "Struct": (lambda s: C.Struct("a" / C.Byte, "s" / s), 1),
    "Struct+": (lambda s: "a" / C.Byte + "s" / s, 1),
    "Struct>Struct": (lambda s: C.Struct("i" / C.Struct("s" / s)), 2),
    "Sequence": (lambda s: C.Sequence(C.Byte, s), 1),
    "FocusedSeq": (lambda s: C.FocusedSeq("s", "a" / C.Byte, "s" / s), 1),
    "AlignedStruct": (lambda s: C.AlignedStruct(4, "s" / s), 1),
    "LazyStruct": (lambda s: C.LazyStruct("s" / s), 1),
    "Array": (lambda s: C.Array(2, s), 0),
    "LazyArray": (lambda s: C.LazyArray(2, s), 0),
    "Prefixed": (lambda s: C.Prefixed(C.Byte, s), 0),
    "Prefixed.incl": (lambda s: C.Prefixed(C.Byte, s, includelength=True), 0),
    "PrefixedArray": (lambda s: C.PrefixedArray(C.Byte, s), 1),
    "Padded": (lambda s: C.Padded(64, s), 0),
    "Aligned": (lambda s: C.Aligned(4, s), 0),
    "FixedSized": (lambda s: C.FixedSized(64, s), 0),
    "If": (lambda s: C.If(True, s), 0),
    "IfThenElse.else": (lambda s: C.IfThenElse(False, C.Byte, s), 0),
    "Switch": (lambda s: C.Switch(1, {1: s}), 0),
    "Switch.default": (lambda s: C.Switch(3, {1: C.Byte}, default=s), 0),
    "Optional": (lambda s: C.Optional(s), 0),
    "Select": (lambda s: C.Select(s, C.Byte), 0),
    "Rebuild": (lambda s: C.Rebuild(s, None), 0),
    "Default": (lambda s: C.Default(s, None), 0),
    "Const": (lambda s: C.Const(None, s), 0),
    "Lazy": (lambda s: C.Lazy(s), 0),
    "Peek": (lambda s: C.Peek(s), 0),
    "Pointer": (lambda s: C.Pointer(0, s), 0),
    "RawCopy": (lambda s: C.RawCopy(s), 0),
    "Hex": (lambda s: C.Hex(s), 0),
    "HexDump": (lambda s: C.HexDump(s), 0),
    "NullTerminated": (lambda s: C.NullTerminated(s), 0),
    "NullStripped": (lambda s: C.NullStripped(s), 0),
    "Bitwise(ctor)": (lambda s: C.Bitwise(s), 0),
    "Bytewise(ctor)": (lambda s: C.Bytewise(s), 0),
    "ByteSwapped(ctor)": (lambda s: C.ByteSwapped(s), 0),
    "BitsSwapped(ctor)": (lambda s: C.BitsSwapped(s), 0),
    "BitStruct": (lambda s: C.BitStruct("s" / s), 1),
    "Enum": (lambda s: C.Enum(s, a=1), 0),
    "FlagsEnum": (lambda s: C.FlagsEnum(s, a=1), 0),
    "Mapping": (lambda s: C.Mapping(s, {1: 1}), 0),
    "OneOf": (lambda s: C.OneOf(s, [1]), 0),
    "ProcessXor": (lambda s: C.ProcessXor(0, s), 0),
    "Checksum": (lambda s: C.Checksum(s, lambda b: b, lambda c: b""), 0),
    "Compressed": (lambda s: C.Compressed(s, "zlib"), 0),
    "Union": (lambda s: C.Union(None, "s" / s), 1),
    "Transformed": (lambda s: C.Transformed(s, lambda b: b, 2, lambda b: b, 2), 0),
    "Restreamed": (lambda s: C.Restreamed(s, lambda b: b, 1, lambda b: b, 1, lambda n: n), 0),
    "NamedTuple": (lambda s: C.NamedTuple("t", "s", C.Struct("s" / s)), 1),
    "GreedyRange": (lambda s: C.GreedyRange(s), 0),
    "RepeatUntil": (lambda s: C.RepeatUntil(True, s), 0),
    "StringEncoded": (lambda s: C.StringEncoded(s, "utf8"), 0),
    "TimestampAdapter": (lambda s: C.Timestamp(s, 1, 1970), 0),
}


def site_case(site, form, wrapper, inner_wrapper, kw_kind):
    """returns Failure | None and labels"""
    wf, lv1 = WRAPPERS[wrapper]
    wf2, lv2 = WRAPPERS[inner_wrapper]
    levels = lv1 + lv2
    p = ref_forms(levels)[form]
    built = call(lambda: wf(wf2(SITES[site](p))))
    where = "%s(%s) inside %s>%s" % (site, form, wrapper, inner_wrapper)
    if not built.ok:
        # constructors may refuse (ByteSwapped needs a sized subcon, NamedTuple/Timestamp type checks): only
        # ConstructError / TypeError from explicit checks are acceptable, a leaked KeyError/AttributeError is not
        if isinstance(built.exc, (KeyError, AttributeError)):
            return Failure("C05/constructor-leaks/%s/%s" % (wrapper if "ctor" in wrapper else inner_wrapper, type(built.exc).__name__),
                           "constructing %s raised %r" % (where, built)), "ctor-refused"
        return None, "ctor-refused"
    con = built.value
    kws = {"present": dict(k=2), "absent": {}, "other-key": dict(j=2), "zero": dict(k=0)}[kw_kind]
    kind, o = sizeof_outcome(con, kws)
    if kind == "foreign":
        if isinstance(o.exc, C.PaddingError) or isinstance(o.exc, C.ConstructError):
            # documented exemption: negative length / modulus < 2 -> PaddingError; other ConstructErrors are reported
            if isinstance(o.exc, C.PaddingError):
                return None, "exempt-padding"
            if kw_kind == "zero":
                return None, "exempt-zero"
        return Failure("C05/sizeof-foreign/%s/%s" % (site.split(".")[0], type(o.exc).__name__),
                       "%s .sizeof(%s) raised %r" % (where, ", ".join("%s=%r" % kv for kv in kws.items()), o)), kind
    if kind == "bad-value":
        if kw_kind == "zero" or form == "this.k+1":
            return None, "exempt-value"
        return Failure("C05/sizeof-bad-value/%s" % site.split(".")[0], "%s .sizeof(%s) returned %r" % (where, kws, o)), kind
    return None, kind


def campaign_sites(ctx):
    forms = ["this.k", "this['k']", "this._params.k", "lambda-attr", "lambda-item", "this.k+1", "expr(len)"]
    outer = list(WRAPPERS)
    inner = ["alone", "Struct", "Array", "Prefixed", "If", "Padded", "Aligned", "Switch", "Renamed", "Sequence", "FocusedSeq", "Lazy",
             "Default", "Optional", "FixedSized"]
    if ctx.thorough:
        inner = list(WRAPPERS)
    combos = list(itertools.product(sorted(SITES), forms, outer, inner, ["present", "absent", "other-key", "zero"]))
    for i, (site, form, w, iw, kwk) in enumerate(combos):
        if i % ctx.nshards != ctx.shard:
            continue
        if not ctx.thorough and iw != "alone" and (hash((site, form, w, iw)) % 5):
            continue   # quick tier: every site x form x outer wrapper alone, one fifth of the two-level nestings
        case = [site, form, w, iw, kwk]
        f, label = site_case(site, form, w, iw, kwk)
        ctx.record(case, kwk in ("present", "absent", "other-key"), ["sites/" + label, "sites/kw=" + kwk])
        ctx.handle(f, case)
    ctx.exhaustive("sizeof: %d parameter sites x %d reference forms x %d outer wrappers x %s inner wrappers x 4 contexts" % (
        len(SITES), len(forms), len(outer), "all" if ctx.thorough else "alone + 1/5 of 15"))
campaign_sites.shards = (8, 16)


# ---------------------------------------------------------------------------------------------
# 2. generated specs: exactness
# ---------------------------------------------------------------------------------------------
FRAG = V.SEQUENTIAL - {"compressed", "bomstr"}
READS_TO_END = {"xor", "rol", "nullstrip"}


def negative_or_small_modulus(spec, params):
    """documented exemptions: any length/count expression that is negative under the parameters, modulus < 2"""
    sc = R.top_scope(params, "sizeof")
    for s in G.walk(spec):
        for e in G._expr_params(s):
            if G.is_expr(e) and X.roots(e) == {"this"}:
                try:
                    v = X.evaluate(e, {"_params": params, **params})
                except Exception:
                    continue
                if isinstance(v, int) and not isinstance(v, bool) and (v < 0 or (s[0] == "aligned" and v < 2)):
                    return True
            elif isinstance(e, int) and s[0] == "aligned" and e < 2:
                return True
    return False


def exact_oracle(ctx):
    def oracle(case):
        spec, params, value, withheld, trailing = case
        con = G.realise(spec)
        kw = {k: v for k, v in params.items() if k not in withheld}
        kind, o = sizeof_outcome(con, kw)
        fk = focus_kind(spec)
        uses_params = any(X.roots(e) and "_params" in str(e) for e, _ in G.exprs_in(spec))
        ctx.record(case, uses_params or kind == "int" and G.depth(spec) >= 2,
                   ["exact/sizeof-" + kind, "exact/withheld=%d" % len(withheld), "exact/uses-params" if uses_params else "exact/no-params"])
        if kind == "foreign":
            if isinstance(o.exc, C.PaddingError) and negative_or_small_modulus(spec, kw):
                return None
            return Failure("C05/sizeof-foreign/%s/%s" % (fk, type(o.exc).__name__), "sizeof(%s) raised %r | spec=%s" % (kw, o, short(spec, 500)))
        if kind == "bad-value":
            if negative_or_small_modulus(spec, kw):
                return None
            return Failure("C05/sizeof-bad-value/%s" % fk, "sizeof(%s) returned %r | spec=%s" % (kw, o, short(spec, 500)))
        # metamorphic: keywords live in _params only; one that merely shares the name of a member must not change the answer
        names = [nm for s_ in G.walk(spec) if s_[0] in ("struct", "seq") for nm, _ in s_[1] if nm]
        if names:
            shadow = dict(kw)
            for nm in names[:3]:
                if nm not in shadow:
                    shadow[nm] = 3
            k2, o2 = sizeof_outcome(con, shadow)
            if k2 != kind or (kind == "int" and o2.value != o.value):
                return Failure("C05/sizeof-keyword-shadows-member/%s" % fk, "sizeof(%s) -> %r but with keywords named like members (%s) -> %r | spec=%s" % (
                    kw, o, sorted(set(shadow) - set(kw)), o2, short(spec, 500)))
        # metamorphic: the same member list sizes the same in every container that just concatenates its members
        if spec[0] == "struct":
            for twin_kind in ("lazystruct", "seq"):
                tcon = call(G.realise, [twin_kind, spec[1]])
                if not tcon.ok:
                    continue
                k3, o3 = sizeof_outcome(tcon.value, kw)
                if k3 != kind or (kind == "int" and o3.value != o.value):
                    return Failure("C05/sizeof-container-twin/%s" % twin_kind, "Struct sizeof(%s) -> %r but the same members as %s -> %r | spec=%s" % (
                        kw, o, twin_kind, o3, short(spec, 500)))
        if kind != "int" or withheld:
            return None
        n = o.value
        for off in (0, 3):
            s = io.BytesIO(b"\xcc" * off)
            s.seek(off)
            b = call(con.build_stream, value, s, **params)
            if not b.ok:
                ctx.tally("exact/value-unbuildable")
                return None
            adv = s.tell() - off
            if adv != n:
                return Failure("C05/inexact-build/%s" % fk, "sizeof(%s) == %d but build_stream at offset %d advanced by %d (value %s) | spec=%s" % (
                    params, n, off, adv, short(value), short(spec, 500)))
            built = s.getvalue()[off:]
            if G.kinds(spec) & READS_TO_END:
                continue
            s2 = io.BytesIO(b"\xcc" * off + built + trailing)
            s2.seek(off)
            p = call(con.parse_stream, s2, **params)
            if not p.ok:
                return Failure("C05/parse-rejects-built/%s" % fk, "parse of built bytes + trailing %s raised %r | spec=%s" % (trailing.hex(), p, short(spec, 500)))
            if s2.tell() - off != n:
                return Failure("C05/inexact-parse/%s" % fk, "sizeof(%s) == %d but parse_stream of %s + %s from offset %d advanced by %d | spec=%s" % (
                    params, n, built.hex(), trailing.hex(), off, s2.tell() - off, short(spec, 500)))
            # the same construct skipped instead of parsed: Lazy(x) has x's size, and skipping by the measured size
            # (_actualsize) must move the stream exactly as far
            lz = C.Lazy(con)
            kl, ol = sizeof_outcome(lz, kw)
            s3 = io.BytesIO(b"\xcc" * off + built + trailing)
            s3.seek(off)
            pl = call(lz.parse_stream, s3, **params)
            ctx.tally("exact/lazy-twin")
            if kl != "int" or ol.value != n or not pl.ok or s3.tell() - off != n:
                return Failure("C05/inexact-lazy/%s" % fk, "sizeof == %d; Lazy(x): sizeof -> %r, parse_stream from offset %d -> %s, advanced by %d | spec=%s" % (
                    n, ol, off, "ok" if pl.ok else repr(pl), s3.tell() - off, short(spec, 500)))
        return None
    return oracle


@st.composite
def exact_cases(draw):
    sized = draw(st.booleans())
    spec, params, value = draw(V.cases(frag=FRAG - ({"gbytes", "gstr", "grange", "optional", "nullterm", "varint", "zigzag", "cstr", "pascal",
                                                      "parray", "select", "runtil", "terminated", "stopif", "prefixed"} if sized else set()),
                                       depth=3, tail=not sized, rootrefs=True))
    if spec[0] == "struct" and draw(st.integers(0, 3)) == 0:
        # look-ahead members: size 0, build nothing, and parsing must not move the stream either - whether the look-ahead
        # succeeds, meets bytes it refuses, or runs out of data (here: the few trailing bytes after the built ones)
        spec = [spec[0], list(spec[1])] + spec[2:]
        for _ in range(draw(st.integers(1, 2))):
            look = draw(st.sampled_from([["int", 1, False, "b", "alias"], ["int", 4, False, "b", "alias"], ["int", 8, True, "l", "alias"], ["const", b"\xc0\xde", None],
                                         ["struct", [["a", ["int", 2, False, "b", "alias"]], ["b", ["const", b"\x00", None]]]]]))
            spec[1].insert(draw(st.integers(0, len(spec[1]))), [None, ["peek", look]])
    withheld = draw(st.lists(st.sampled_from(sorted(params)), unique=True, max_size=len(params))) if params and draw(st.booleans()) else []
    return [spec, params, value, withheld, draw(st.binary(max_size=4))]


def campaign_exact(ctx):
    ctx.search(exact_cases(), exact_oracle(ctx), ctx.budget(24000, 400000))
campaign_exact.shards = (6, 16)


CAMPAIGNS = {"sites": campaign_sites, "exact": campaign_exact}


def replay(campaign, case):
    class _C:
        def record(self, *a, **k): pass
        def tally(self, *a, **k): pass
    if campaign == "sites":
        return site_case(*case)[0]
    return exact_oracle(_C())(case)
