"""C15 — byte transforms invert exactly and match their definition."""
import bz2
import gzip
import io
import itertools
import lzma
import zlib

from hypothesis import strategies as st

import construct as C
from construct import (ProcessXor, ProcessRotateLeft, ByteSwapped, BitsSwapped, Compressed, Prefixed, GreedyBytes,
                       Bytes, Struct, Int16ub, Int8ub, VarInt, Int32ub, this, RotationError, ConstructError,
                       Transformed, Restreamed, Array, Byte, BytesInteger)

from pbt.harness import Failure, call, short

RULE = ("XOR: every single-byte key as int and as 1-byte bytes (enumerated), byte-string keys of length 1..80 incl. "
        "all-zero keys around the 64-byte shortcut, key given as constant / this.k / lambda, data 0..200 bytes; "
        "rotation: all amounts -64..64 x groups 1..8 (enumerated) x data of 0..3 groups, plus lengths that are not "
        "multiples of the group; ByteSwapped/BitsSwapped of sized (1..16) and streaming constructs; zlib/gzip/bzip2/lzma "
        "x levels inside Prefixed. Oracles are independent definitions (cyclic xor, big-endian integer rotation, "
        "byte/bit reversal, stdlib codecs as validity predicate). non-trivial = data non-empty and transform not identity")
ASSUMPTIONS = ["stdlib zlib/gzip/bz2/lzma are trusted; compressed bytes are checked by decompression, not by identity"]


# ---- independent definitions -----------------------------------------------------------------
def xor_def(data, key):
    if isinstance(key, int):
        key = bytes([key])
    return bytes(data[i] ^ key[i % len(key)] for i in range(len(data)))


def rot_def(data, amount, group, left=True):
    bits = 8 * group
    amt = amount % bits
    out = bytearray()
    for i in range(0, len(data), group):
        n = int.from_bytes(data[i:i + group], "big")
        if not left:
            a = (bits - amt) % bits
        else:
            a = amt
        n = ((n << a) | (n >> (bits - a))) & ((1 << bits) - 1) if a else n
        out += n.to_bytes(group, "big")
    return bytes(out)


def bitrev(b):
    return int("{:08b}".format(b)[::-1], 2)


def parse_at(con, data, offset=0, **kw):
    s = io.BytesIO(b"\xEE" * offset + data)
    s.seek(offset)
    return call(con.parse_stream, s, **kw)


# ---- XOR ---------------------------------------------------------------------------------------
def xor_oracle(ctx):
    def oracle(case):
        key, data, form = case
        nontrivial = len(data) > 0 and any(key if isinstance(key, bytes) else [key])
        ctx.record(case, nontrivial, ["xor/keylen=%s" % (len(key) if isinstance(key, bytes) else "int"), "xor/form=" + form])
        kw = {}
        if form == "const":
            pad = key
        elif form == "this":
            pad, kw = this.k, dict(k=key)
        else:
            pad, kw = (lambda c: c.k), dict(k=key)
        inner = Struct("n" / Int8ub, "rest" / GreedyBytes) if len(data) >= 1 else None
        d = ProcessXor(pad, GreedyBytes)
        want = xor_def(data, key)
        p = call(d.parse, data, **kw)
        if not p.ok or p.value != want:
            return Failure("C15/xor/parse", "ProcessXor(%s).parse(%s) -> %r, definition %s" % (short(key, 60), short(data, 60), p, short(want, 60)))
        b = call(d.build, data, **kw)
        if not b.ok or b.value != want:
            return Failure("C15/xor/build", "ProcessXor(%s).build(%s) -> %r, definition %s" % (short(key, 60), short(data, 60), b, short(want, 60)))
        rt = call(d.parse, b.value, **kw)
        if not rt.ok or rt.value != data:
            return Failure("C15/xor/roundtrip", "parse(build(x)) != x for key %s data %s: %r" % (short(key, 60), short(data, 60), rt))
        # a key taken from the context is the key in force where the ProcessXor stands (here: the index of the OUTER repetition),
        # whatever its inner construct does to the context meanwhile
        if isinstance(key, int) and len(data) >= 4:
            from construct import Array, FixedSized, Byte
            rows = [list(data[:4]), list(data[:4][::-1]), list(data[:4])]
            rolling = Array(3, FixedSized(4, ProcessXor(this._index + key, Array(4, Byte))))
            wantr = b"".join(bytes(b ^ ((i + key) & 0xff) for b in row) for i, row in enumerate(rows)) if key + 2 < 256 else None
            if wantr is not None:
                br = call(rolling.build, rows)
                pr = call(rolling.parse, wantr)
                if not br.ok or br.value != wantr or not pr.ok or [list(r) for r in pr.value] != rows:
                    return Failure("C15/xor/index-key", "Array(3, FixedSized(4, ProcessXor(this._index + %d, Array(4, Byte)))): build -> %r, definition %s; parse -> %r" % (key, br, wantr.hex(), pr))
        # the key always starts cycling at the first byte of the region, wherever the region sits in the stream
        for off in (1, 3, len(key) + 1 if isinstance(key, bytes) else 2):
            from construct import Bytes
            pad2 = key if form == "const" else (this._params.k if form == "this" else (lambda c: c._params.k))
            outer = Struct("pre" / Bytes(off), "x" / ProcessXor(pad2, GreedyBytes))
            po = call(outer.parse, b"\xaa" * off + data, **kw)
            bo = call(outer.build, dict(pre=b"\xaa" * off, x=data), **kw)
            if not po.ok or po.value.x != want or not bo.ok or bo.value != b"\xaa" * off + want:
                return Failure("C15/xor/offset", "ProcessXor(%s) behind %d bytes: parse -> %r, build -> %r, definition %s" % (short(key, 60), off, po, bo, short(want, 60)))
        if inner is not None:
            d2 = ProcessXor(pad, inner)
            p2 = call(d2.parse, data, **kw)
            if not p2.ok or p2.value.n != want[0] or p2.value.rest != want[1:]:
                return Failure("C15/xor/inner-sees", "structured inner construct saw %r, expected n=%d rest=%s" % (p2, want[0], short(want[1:], 60)))
            b2 = call(d2.build, dict(n=data[0], rest=data[1:]), **kw)
            if not b2.ok or b2.value != want:
                return Failure("C15/xor/build", "structured build -> %r, definition %s" % (b2, short(want, 60)))
        return None
    return oracle


def campaign_xor(ctx):
    orc = xor_oracle(ctx)
    datas = [b"", b"\x00", b"\xff\x00\x7f\x80", bytes(range(70))]
    for k in range(256):
        for data in datas:
            ctx.check_case([k, data, "const"], orc)
            ctx.check_case([bytes([k]), data, "const"], orc)
    ctx.exhaustive("xor: every single-byte key as int and as 1-byte bytes x 4 data strings")
    for n in range(1, 81):
        for data in (bytes(range(200)), b"\x55" * (n + 3)):
            ctx.check_case([bytes(n), data, "const"], orc)                    # all-zero key
            ctx.check_case([bytes(n - 1) + b"\x01", data, "const"], orc)       # zero except last byte
            ctx.check_case([b"\x80" + bytes(n - 1), data, "this"], orc)
    ctx.exhaustive("xor: all-zero / almost-zero keys of every length 1..80 (64-byte shortcut boundary)")
    strat = st.tuples(st.one_of(st.integers(0, 255), st.binary(min_size=1, max_size=80),
                                st.integers(1, 80).map(bytes)),
                      st.binary(max_size=200), st.sampled_from(["const", "this", "lambda"])).map(list)
    ctx.search(strat, orc, ctx.budget(4800, 30000))
campaign_xor.shards = (3, 4)


# ---- rotation ----------------------------------------------------------------------------------
def rol_oracle(ctx):
    def oracle(case):
        amount, group, data, form = case
        if form == "const":
            d, kw = ProcessRotateLeft(amount, group, GreedyBytes), {}
        else:
            d, kw = ProcessRotateLeft(this.amount, this.group, GreedyBytes), dict(amount=amount, group=group)
        bad = len(data) % group != 0
        ctx.record(case, bad or (len(data) > 0 and amount % (8 * group) != 0),
                   ["rol/group=%d" % group, "rol/bad-length" if bad else "rol/ok-length",
                    "rol/branch=" + ("identity" if amount % (8 * group) == 0 else "table" if group == 1 else
                                     "bytes" if amount % 8 == 0 else "bits")])
        p = call(d.parse, data, **kw)
        b = call(d.build, data, **kw)
        if bad:
            if p.ok or not isinstance(p.exc, RotationError):
                return Failure("C15/rol/bad-length-parse", "length %d not multiple of group %d: parse -> %r" % (len(data), group, p))
            if b.ok or not isinstance(b.exc, RotationError):
                return Failure("C15/rol/bad-length-build", "length %d not multiple of group %d: build -> %r" % (len(data), group, b))
            return None
        wantp = rot_def(data, amount, group, left=True)
        wantb = rot_def(data, amount, group, left=False)
        if not p.ok or p.value != wantp:
            return Failure("C15/rol/parse", "rotate amount=%d group=%d parse(%s) -> %r, definition %s" % (amount, group, data.hex(), p, wantp.hex()))
        if not b.ok or b.value != wantb:
            return Failure("C15/rol/build", "rotate amount=%d group=%d build(%s) -> %r, definition %s" % (amount, group, data.hex(), b, wantb.hex()))
        rt = call(d.parse, b.value, **kw)
        if not rt.ok or rt.value != data:
            return Failure("C15/rol/roundtrip", "parse(build(x)) != x amount=%d group=%d: %r" % (amount, group, rt))
        rt2 = call(d.build, p.value, **kw)
        if not rt2.ok or rt2.value != data:
            return Failure("C15/rol/roundtrip", "build(parse(x)) != x amount=%d group=%d: %r" % (amount, group, rt2))
        return None
    return oracle


def campaign_rol(ctx):
    orc = rol_oracle(ctx)
    pats = [bytes([0x81, 0x01, 0xF0, 0x0F, 0xAA, 0x3C, 0x80, 0x7E] * 3), bytes(range(1, 25)), bytes([0xff, 0, 0, 0, 0, 0, 0, 1] * 3)]
    combos = list(itertools.product(range(-64, 65), range(1, 9)))
    for i, (amount, group) in enumerate(combos):
        if i % ctx.nshards != ctx.shard:
            continue
        for ngroups in range(0, 4):
            for pat in (pats if ctx.thorough else pats[:2]):
                ctx.check_case([amount, group, pat[:ngroups * group], "const" if (amount + group) % 3 else "this"], orc)
        if group > 1:
            ctx.check_case([amount, group, pats[0][:group + 1], "const"], orc)
            ctx.check_case([amount, group, pats[0][:group - 1], "const"], orc)
    ctx.exhaustive("rotate: all amounts -64..64 x groups 1..8 x 0..3 groups of pattern data + non-multiple lengths")
    strat = st.tuples(st.integers(-200, 200), st.integers(1, 12), st.binary(max_size=48), st.sampled_from(["const", "this"])).map(list)
    ctx.search(strat, orc, ctx.budget(3600, 30000))
campaign_rol.shards = (4, 4)


# ---- swaps -------------------------------------------------------------------------------------
def swap_oracle(ctx):
    def oracle(case):
        kind, n, data, trailing = case
        # kind: byteswapped-bytes | byteswapped-struct | bitsswapped-bytes | bitsswapped-stream | byteswapped-int
        ctx.record(case, len(data) > 1 and data != data[::-1], ["swap/" + kind, "swap/n=%d" % min(n, 16)])
        if kind == "byteswapped-bytes":
            d = ByteSwapped(Bytes(n)); wantp = data[::-1]; obj = data; wantb = data[::-1]
        elif kind == "byteswapped-int":
            d = ByteSwapped(BytesInteger(n)); wantp = int.from_bytes(data, "little"); obj = wantp; wantb = data
        elif kind == "byteswapped-struct":
            if n < 2:
                return None
            d = ByteSwapped(Struct("a" / Int8ub, "b" / Bytes(n - 1)))
            sw = data[::-1]
            wantp = dict(a=sw[0], b=sw[1:]); obj = wantp; wantb = data
        elif kind == "bitsswapped-bytes":
            d = BitsSwapped(Bytes(n)); wantp = bytes(bitrev(b) for b in data); obj = data; wantb = wantp
            if not isinstance(d, Transformed):
                raise AssertionError("expected the sized implementation")
        else:
            d = BitsSwapped(Struct("n" / Int8ub, "b" / Bytes(this.n)))
            if not isinstance(d, Restreamed):
                raise AssertionError("expected the streaming implementation")
            if n < 1:
                return None
            inner = bytes([n - 1]) + data[:n - 1]
            if len(inner) != n:
                return None
            data = bytes(bitrev(b) for b in inner)
            wantp = dict(n=n - 1, b=inner[1:]); obj = wantp; wantb = data
        s = io.BytesIO(data + trailing)
        p = call(d.parse_stream, s)
        ok = p.ok and (p.value == wantp if not isinstance(wantp, dict) else all(p.value[k] == v for k, v in wantp.items()))
        if not ok:
            return Failure("C15/swap/%s/parse" % kind, "parse(%s) -> %r, definition %s" % (data.hex(), p, short(wantp)))
        if s.tell() != len(data):
            return Failure("C15/swap/%s/consumed" % kind, "consumed %d bytes of %d" % (s.tell(), len(data)))
        b = call(d.build, obj)
        if not b.ok or b.value != wantb:
            return Failure("C15/swap/%s/build" % kind, "build(%s) -> %r, definition %s" % (short(obj), b, wantb.hex()))
        return None
    return oracle


def campaign_swap(ctx):
    orc = swap_oracle(ctx)
    kinds = ["byteswapped-bytes", "byteswapped-struct", "bitsswapped-bytes", "bitsswapped-stream", "byteswapped-int"]
    for b in range(256):
        ctx.check_case(["bitsswapped-bytes", 1, bytes([b]), b""], orc)
    ctx.exhaustive("bitsswapped: every byte value")

    @st.composite
    def cases(draw):
        kind = draw(st.sampled_from(kinds))
        n = draw(st.integers(1, 16))
        if kind in ("byteswapped-bytes", "bitsswapped-bytes") and draw(st.integers(0, 7)) == 0:
            n = 0       # a transformed region of no bytes at all: takes nothing from the stream, whatever follows it
        data = draw(st.binary(min_size=n, max_size=n))
        return [kind, n, data, draw(st.binary(max_size=3))]
    ctx.search(cases(), orc, ctx.budget(4800, 30000))
campaign_swap.shards = (3, 4)


# ---- compression -------------------------------------------------------------------------------
LIBS = {"zlib": zlib, "gzip": gzip, "bzip2": bz2, "lzma": lzma}


def comp_oracle(ctx):
    def oracle(case):
        codec, level, data, prefix = case
        lib = LIBS[codec]
        lf = {"varint": VarInt, "int32": Int32ub}[prefix]
        d = Prefixed(lf, Compressed(GreedyBytes, codec, level=level))
        ctx.record(case, len(data) > 0, ["comp/" + codec, "comp/level=%s" % level])
        b = call(d.build, data)
        ref = call(lambda: lib.compress(data) if level is None or codec == "lzma" else lib.compress(data, level))
        if not ref.ok:
            # the codec itself refuses the level (bzip2 level 0): the wrapper must not quietly pick another one
            if b.ok:
                return Failure("C15/compressed/%s/level-not-applied" % codec, "level=%r is refused by the codec (%r) but build produced %s" % (level, ref, short(b.value, 60)))
            return None
        if not b.ok:
            return Failure("C15/compressed/%s/build" % codec, "build(%s) raised %r" % (short(data, 60), b))
        s = io.BytesIO(b.value)
        ln = lf.parse_stream(s)
        body = s.read()
        if ln != len(body):
            return Failure("C15/compressed/%s/prefix" % codec, "prefix %d but %d bytes follow" % (ln, len(body)))
        # what build emits is the codec's output at the requested level (gzip stamps the time into bytes 4..8 of its header)
        mask = (lambda x: x[:4] + x[8:]) if codec == "gzip" else (lambda x: x)
        if mask(body) != mask(ref.value):
            return Failure("C15/compressed/%s/level-not-applied" % codec, "level=%r: build emitted %d bytes %s, the codec at that level gives %d bytes %s" % (
                level, len(body), short(body, 40), len(ref.value), short(ref.value, 40)))
        dec = call(lib.decompress, body)
        if not dec.ok or dec.value != data:
            return Failure("C15/compressed/%s/build" % codec, "stdlib decompress(build(x)) -> %r, expected %s" % (dec, short(data, 60)))
        p = call(d.parse, b.value + b"trailing")
        if not p.ok or p.value != data:
            return Failure("C15/compressed/%s/roundtrip" % codec, "parse(build(x)+trailing) -> %r" % (p,))
        comp = ref.value
        p2 = call(d.parse, lf.build(len(comp)) + comp)
        if not p2.ok or p2.value != data:
            return Failure("C15/compressed/%s/parse" % codec, "parse(prefix + stdlib.compress(x)) -> %r" % (p2,))
        # streams another tool wrote: several members back to back, or a member followed by other bytes. Whatever the stdlib
        # codec makes of such a stream (all members joined, the first one only, an error) is what the inner construct gets
        for foreign in (comp + lib.compress(data[::-1] + b"2nd"), comp + b"xx", comp + comp):
            want = call(lib.decompress, foreign)
            pf = call(d.parse, lf.build(len(foreign)) + foreign)
            ctx.tally("comp/foreign-stream-" + ("decodes" if want.ok else "refused"))
            if want.ok != pf.ok or (want.ok and pf.value != want.value):
                return Failure("C15/compressed/%s/foreign-stream" % codec, "parse of a %d-byte stream -> %r, stdlib decompress of the same bytes -> %r" % (len(foreign), pf, want))
        # structured inner sees the decompressed bytes
        d2 = Prefixed(lf, Compressed(Struct("n" / Int8ub, "r" / GreedyBytes), codec, level=level))
        if data:
            p3 = call(d2.parse, lf.build(len(comp)) + comp)
            if not p3.ok or p3.value.n != data[0] or p3.value.r != data[1:]:
                return Failure("C15/compressed/%s/inner-sees" % codec, "structured inner saw %r" % (p3,))
        return None
    return oracle


def campaign_compressed(ctx):
    datas = st.one_of(st.binary(max_size=64), st.binary(max_size=8).flatmap(lambda b: st.integers(0, 600).map(lambda n: b * n)),
                      st.binary(min_size=200, max_size=3000))
    strat = st.tuples(st.sampled_from(sorted(LIBS)), st.sampled_from([None, 0, 0, 1, 2, 6, 9]), datas,
                      st.sampled_from(["varint", "int32"])).map(list)
    ctx.search(strat, comp_oracle(ctx), ctx.budget(1500, 8000))
campaign_compressed.shards = (4, 4)


CAMPAIGNS = {"xor": campaign_xor, "rol": campaign_rol, "swap": campaign_swap, "compressed": campaign_compressed}


def replay(campaign, case):
    class _C:
        def record(self, *a, **k): pass
        def tally(self, *a, **k): pass
    c = _C()
    return dict(xor=xor_oracle, rol=rol_oracle, swap=swap_oracle, compressed=comp_oracle)[campaign](c)(case)
