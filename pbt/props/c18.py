"""C18 — errors name the member in which parsing or building failed."""
from hypothesis import strategies as st

import construct as C

from pbt import exprs as X
from pbt import grammar as G
from pbt import refmodel as R
from pbt import values as V
from pbt.mutate import mutated
from pbt.harness import Failure, call, short
from pbt.props.c03 import focus_kind, invalid_cases

RULE = ("nested Struct/Sequence/FocusedSeq/Array/PrefixedArray/Prefixed/FixedSized/Padded/Aligned/If/IfThenElse/Switch/bit-level "
        "shapes with named members at every level (names unique per spec) x generated values x every truncation offset of the "
        "canonical encoding (parse), one member made unbuildable at a time (out of range, wrong length, unencodable, unknown "
        "label) for build, mutated canonical data rejected by validation, and sizeof on shapes with an unsizable or "
        "context-dependent member; oracle: the reference model records which read/validation fails first and the names of the "
        "members enclosing it; ConstructError.path must equal '(parsing)|(building)|(sizeof)' + ' -> name' per enclosing "
        "named member. non-trivial = expected path has >= 1 name")
ASSUMPTIONS = ["macro-internal member names of the documented expansions (PrefixedArray: count/items) are part of the path",
               "a region read belongs to the delimiter (Prefixed/FixedSized/PaddedString), not to the members inside it",
               "failure-absorbing constructs (Select/Optional/GreedyRange/Peek) are outside the truncation clause"]

FRAG = frozenset("""int float varint zigzag bytes pstr pascal cstr flag enum flagsenum mapping const computed pass padding struct seq
 fseq array parray if ite switch rebuild default prefixed fixedsized padded aligned check bitwise bitstruct bytewise byteswapped
 oneof noneof hex alignedstruct nullterm gbytes gstr docs""".split())


def fmt(op, path):
    return "(%s)" % op + "".join(" -> %s" % n for n in path)


def check_path(ctx, op, exc, expected, what, spec, extra=""):
    fk = focus_kind(spec)
    got = getattr(exc, "path", None)
    want = fmt(op, expected)
    if got != want:
        kind = "missing" if got is None else "wrong"
        return Failure("C18/%s-path-%s/%s" % (op, kind, type(exc).__name__), "%s: %s raised with path %r, expected %r | spec=%s %s" % (
            what, type(exc).__name__, got, want, short(spec, 500), extra))
    return None


def truncation_oracle(ctx):
    def oracle(case):
        spec, params, value = case
        if G.kinds(spec) & {"select", "optional", "grange", "nullstrip", "xor", "rol", "compressed", "terminated"}:
            return None
        try:
            data = R.ref_build(spec, value, params)
        except (R.Reject, R.ForeignError):
            ctx.tally("trunc/unbuildable")
            return None
        con = G.realise(spec)
        for cut in range(len(data)):
            try:
                R.ref_parse(spec, data[:cut], params)
                ctx.tally("trunc/prefix-accepted")       # greedy tail: a prefix can be a complete encoding
                continue
            except R.ForeignError:
                continue
            except R.Reject as e:
                expected, reason = e.path, e.reason
            o = call(con.parse, data[:cut], **params)
            ctx.record([spec, params, data[:cut]], len(expected) >= 1, ["trunc/depth=%d" % min(len(expected), 4), "trunc/" + reason])
            if o.ok or not isinstance(o.exc, C.ConstructError):
                continue   # accept/reject agreement and exception class are C03/C06's business
            f = check_path(ctx, "parsing", o.exc, expected, "parse of %s cut to %d of %d bytes" % (data.hex(), cut, len(data)), spec, "params=%s" % params)
            if f:
                return f
        return None
    return oracle


def campaign_truncation(ctx):
    ctx.search(V.cases(frag=FRAG, depth=3).map(list), truncation_oracle(ctx), ctx.budget(8000, 200000))
campaign_truncation.shards = (4, 16)


def mutated_oracle(ctx):
    def oracle(case):
        spec, params, data = case
        try:
            R.ref_parse(spec, data, params)
            ctx.tally("mutated/accepted")
            return None
        except R.ForeignError:
            return None
        except R.Reject as e:
            expected, reason = e.path, e.reason
        con = G.realise(spec)
        o = call(con.parse, data, **params)
        ctx.record(case, len(expected) >= 1 and reason != "eof", ["mutated/" + reason])
        if o.ok or not isinstance(o.exc, C.ConstructError):
            return None
        return check_path(ctx, "parsing", o.exc, expected, "parse of %s (reference rejects: %s)" % (data.hex(), reason), spec, "params=%s" % params)
    return oracle


@st.composite
def mutated_cases(draw):
    spec, params, value = draw(V.cases(frag=FRAG - {"gbytes", "gstr"}, depth=3, tail=False))
    try:
        data = R.ref_build(spec, value, params)
    except (R.Reject, R.ForeignError):
        data = b""
    windows = [n for n in G.walk(spec) if n[0] in ("fixedsized", "padded") and isinstance(n[1], int) and not isinstance(n[1], bool) and n[1] > 0 and n[2][0] not in ("gbytes", "gstr", "nullstrip")]
    if windows and draw(st.integers(0, 2)) == 0:
        # the format's own mistake: a fixed window (FixedSized, Padded) declared smaller than what it holds. The member that runs
        # out of bytes inside the window is the one that failed; data stays the (now over-long) canonical encoding
        import copy
        spec = copy.deepcopy(spec)
        w = draw(st.sampled_from([n for n in G.walk(spec) if n[0] in ("fixedsized", "padded") and isinstance(n[1], int) and not isinstance(n[1], bool) and n[1] > 0
                                  and n[2][0] not in ("gbytes", "gstr", "nullstrip")]))
        w[1] = draw(st.integers(0, w[1] - 1))
        return [spec, params, data if draw(st.booleans()) else draw(mutated(data, max_ops=1))]
    return [spec, params, draw(mutated(data, max_ops=2))]


def campaign_mutated(ctx):
    ctx.search(mutated_cases(), mutated_oracle(ctx), ctx.budget(10000, 200000))
campaign_mutated.shards = (4, 16)


def build_oracle(ctx):
    def oracle(case):
        spec, params, value = case
        try:
            R.ref_build(spec, value, params)
            ctx.tally("build/valid")
            return None
        except R.ForeignError:
            return None
        except R.Reject as e:
            expected, reason = e.path, e.reason
        con = G.realise(spec)
        o = call(con.build, value, **params)
        ctx.record(case, len(expected) >= 1, ["build/" + reason, "build/depth=%d" % min(len(expected), 4)])
        if o.ok:
            return None
        if not isinstance(o.exc, C.ConstructError):
            # a value the field cannot hold (the reference refuses it for a typed reason) came back as a bare Python exception:
            # nothing names the member then
            if reason in ("out-of-range", "float-overflow", "wrong-length", "unknown-label", "not-an-integer", "not-a-number"):
                return Failure("C18/building-path-missing/%s" % type(o.exc).__name__, "build of %s (reference rejects: %s) raised %r, which carries no path; expected %r | spec=%s params=%s" % (
                    short(value), reason, o, fmt("building", expected), short(spec, 500), params))
            return None
        return check_path(ctx, "building", o.exc, expected, "build of %s (reference rejects: %s)" % (short(value), reason), spec, "params=%s" % params)
    return oracle


@st.composite
def build_cases(draw):
    global _FRAG_OVERRIDE
    spec, params, value = draw(invalid_cases_frag())
    return [spec, params, value]


def invalid_cases_frag():
    # same typed invalidation as C03, on this property's fragment
    from pbt.props import c03

    @st.composite
    def strat(draw):
        spec, params, value = draw(V.cases(frag=FRAG, depth=3))
        paths = list(c03._leaf_paths(spec, value, ()))
        if not paths:
            return [spec, params, value]
        path, leafspec = draw(st.sampled_from(paths))
        bad = draw(c03._invalid_value(leafspec, c03._get(value, path)))
        return [spec, params, c03._set(value, path, bad)]
    return strat()


def campaign_build(ctx):
    ctx.search(build_cases(), build_oracle(ctx), ctx.budget(24000, 300000))
campaign_build.shards = (4, 16)


# ---------------------------------------------------------------------------------------------
# sizeof paths
# ---------------------------------------------------------------------------------------------
UNSIZABLE = {"varint", "zigzag", "cstr", "gbytes", "gstr", "grange", "runtil", "nullterm", "nullstrip", "select", "optional",
             "terminated", "stopif", "error", "compressed", "union", "lazybound", "offsettedend"}


class Unsure(Exception):
    pass


def szfail(spec, sc):
    """path (tuple of names) of the first member whose sizeof fails, or None when sizeof succeeds"""
    k = spec[0]

    def ev(e):
        if not G.is_expr(e):
            return True, e
        try:
            return True, X.evaluate(e, sc)
        except (KeyError, AttributeError, TypeError, IndexError):
            return False, None
    if k in UNSIZABLE:
        return ()
    if k in ("int", "float", "flag", "computed", "pass", "check", "index", "bit", "nibble", "octet"):
        return None
    if k in ("bytes", "pstr", "padding", "bits", "fixedsized", "padded", "bint"):
        ok, v = ev(spec[1])
        if not ok:
            return ()
        if isinstance(v, int) and v < 0:
            raise Unsure()
        return None
    if k == "pascal":
        r = szfail(spec[1], sc)
        return r if r is not None else ()
    if k in ("enum", "flagsenum", "mapping", "oneof", "noneof", "hex", "hexdump", "rebuild", "default", "docs", "xor", "exprsym", "expradd", "exprvalid"):
        return szfail(spec[2] if k == "xor" else spec[1], sc)
    if k == "rol":
        return szfail(spec[3], sc)
    if k == "const":
        return None if spec[2] is None else szfail(spec[2], sc)
    if k in ("struct", "seq", "lazystruct"):
        s2 = R.nested_scope(sc)
        for name, sub in spec[1]:
            r = szfail(sub, s2)
            if r is not None:
                return ((name,) if name else ()) + r
        return None
    if k == "fseq":
        s2 = R.nested_scope(sc)
        for name, sub in spec[2]:
            r = szfail(sub, s2)
            if r is not None:
                return ((name,) if name else ()) + r
        return None
    if k == "alignedstruct":
        s2 = R.nested_scope(sc)
        for name, sub in spec[2]:
            r = szfail(sub, s2)
            if r is not None:
                return ((name,) if name else ()) + r
        return None
    if k in ("array", "lazyarray"):
        ok, v = ev(spec[1])
        if not ok:
            return ()
        return szfail(spec[2], sc)
    if k == "parray":
        s2 = R.nested_scope(sc)
        r = szfail(spec[1], s2)
        if r is not None:
            return ("count",) + r
        return ("items",)
    if k == "prefixed":
        r = szfail(spec[1], sc)
        if r is not None:
            return r
        return szfail(spec[2], sc)
    if k == "aligned":
        ok, v = ev(spec[1])
        if not ok:
            return ()
        if isinstance(v, int) and v < 2:
            raise Unsure()
        return szfail(spec[2], sc)
    if k == "if":
        ok, v = ev(spec[1])
        if not ok:
            return ()
        return szfail(spec[2], sc) if v else None
    if k == "ite":
        ok, v = ev(spec[1])
        if not ok:
            return ()
        return szfail(spec[2] if v else spec[3], sc)
    if k == "switch":
        ok, v = ev(spec[1])
        if not ok:
            return ()
        try:
            sub = {kk: s for kk, s in spec[2]}.get(v, spec[3])
        except TypeError:
            raise Unsure()
        return None if sub is None else szfail(sub, sc)
    if k in ("bitwise", "bitstruct"):
        sub = spec[1] if k == "bitwise" else ["struct", spec[1]]
        if G.fixed_size(sub, bit=True) is not None:
            return None
        return szfail(sub, sc)
    if k in ("bytewise", "byteswapped", "bitsswapped"):
        if G.fixed_size(spec[1]) is not None:
            return None
        return szfail(spec[1], sc)
    raise Unsure()


def sizeof_oracle(ctx):
    def oracle(case):
        spec, params = case
        try:
            expected = szfail(spec, R.top_scope(params, "sizeof"))
        except Unsure:
            ctx.tally("sizeof/unsure")
            return None
        con = G.realise(spec)
        o = call(con.sizeof, **params)
        ctx.record(case, expected is not None and len(expected) >= 1, ["sizeof/" + ("sizable" if expected is None else "depth=%d" % min(len(expected), 4))])
        if expected is None:
            if not o.ok and isinstance(o.exc, C.SizeofError):
                return Failure("C18/sizeof-unexpected-error/%s" % focus_kind(spec), "sizeof(%s) raised %r although every member is sizable | spec=%s" % (params, o, short(spec, 500)))
            return None
        if o.ok or not isinstance(o.exc, C.ConstructError):
            return None
        return check_path(ctx, "sizeof", o.exc, expected, "sizeof(%s)" % params, spec)
    return oracle


def campaign_sizeof(ctx):
    strat = V.spec_and_params(frag=FRAG | {"grange", "optional", "select", "stopif", "lamlen"}, depth=3).map(list)
    ctx.search(strat, sizeof_oracle(ctx), ctx.budget(10000, 200000))
campaign_sizeof.shards = (2, 8)


CAMPAIGNS = {"truncation": campaign_truncation, "mutated": campaign_mutated, "build": campaign_build, "sizeof": campaign_sizeof}


def replay(campaign, case):
    class _C:
        def record(self, *a, **k): pass
        def tally(self, *a, **k): pass
    c = _C()
    return {"truncation": truncation_oracle, "mutated": mutated_oracle, "build": build_oracle, "sizeof": sizeof_oracle}[campaign](c)(case)
