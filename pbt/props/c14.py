"""C14 — RawCopy reports the exact bytes processed; checksums built always verify."""
import hashlib
import io
import os
import tempfile
import zlib

from hypothesis import strategies as st

import construct as C
from construct import this

from pbt import grammar as G
from pbt import refmodel as R
from pbt import values as V
from pbt.mutate import mutated
from pbt.harness import Failure, call, short
from pbt.props.c02 import lib_eq
from pbt.props.c03 import focus_kind

RULE = ("RawCopy around generated fixed, variable and nested constructs, placed at top level (stream offsets 0..5), after a "
        "prefix member in a Struct, inside Prefixed / FixedSized regions, in an Array and nested in another RawCopy; oracle: "
        "data == outer_stream[offset1:offset2] (absolute offsets), length == offset2-offset1, inner.parse(data) == value, "
        "build from {value}, {data} and the parsed result emit identical bytes, offsets observed while building (through "
        "Rebuild members) are the actual ones, build_file == build. Checksum(field, hash, this.region.data) for crc32, "
        "adler32, md5, sha1, sha256 and a truncated digest: parse(build(v)) verifies, hash(region.data) == checksum on every "
        "accepted input (incl. mutated ones), and EVERY single-bit corruption of a structure-stable covered region or of the "
        "stored digest raises exactly ChecksumError. non-trivial = offset > 0, nested region or variable-length inner; every "
        "corruption case")
ASSUMPTIONS = ["hash functions from hashlib/zlib are trusted; a truncated 32-bit digest can collide with probability 2^-32 per flip",
               "structure-stable regions contain no validating members (a flip there could raise the member's own error first)"]

FRAG = V.CORE - {"gbytes", "gstr", "grange", "nullstrip"}
STABLE = frozenset("int float bytes flag struct seq array padding enum computed pass".split())


def wrap(shape, inner):
    """shape -> (construct, function(value) -> build object, function(result) -> RawCopy result, start offset of the whole thing)"""
    rc = C.RawCopy(inner)
    if shape == "top":
        return rc, (lambda v: dict(value=v)), (lambda r: r)
    if shape == "struct":
        return (C.Struct("pre" / C.Bytes(3), "rc" / rc, "post" / C.Byte),
                (lambda v: dict(pre=b"abc", rc=dict(value=v), post=7)), (lambda r: r.rc))
    if shape == "prefixed":
        return (C.Struct("h" / C.Byte, "p" / C.Prefixed(C.VarInt, C.Struct("x" / C.Byte, "rc" / rc))),
                (lambda v: dict(h=1, p=dict(x=2, rc=dict(value=v)))), (lambda r: r.p.rc))
    if shape == "fixedsized":
        return (C.Struct("h" / C.Int16ub, "f" / C.FixedSized(64, C.Struct("rc" / rc))),
                (lambda v: dict(h=1, f=dict(rc=dict(value=v)))), (lambda r: r.f.rc))
    if shape == "twolevels":
        # a region inside a region, the outer one not at offset 0: reported offsets stay absolute offsets of the one real stream
        return (C.Struct("h" / C.Int16ub, "p" / C.Prefixed(C.Byte, C.Struct("x" / C.Byte, "f" / C.FixedSized(60, C.Struct("y" / C.Byte, "rc" / rc))))),
                (lambda v: dict(h=1, p=dict(x=2, f=dict(y=3, rc=dict(value=v))))), (lambda r: r.p.f.rc))
    if shape == "array":
        return (C.Struct("a" / C.Array(2, rc)), (lambda v: dict(a=[dict(value=v), dict(value=v)])), (lambda r: r.a[1]))
    if shape == "nested":
        return (C.Struct("pre" / C.Byte, "outer" / C.RawCopy(C.Struct("k" / C.Byte, "rc" / rc))),
                (lambda v: dict(pre=9, outer=dict(value=dict(k=1, rc=dict(value=v))))), (lambda r: r.outer.value.rc))
    raise ValueError(shape)


SHAPES = ["top", "struct", "prefixed", "fixedsized", "array", "nested", "twolevels"]


def rawcopy_oracle(ctx):
    def oracle(case):
        spec, params, value, shape, start = case
        inner = G.realise(spec)
        con, mkobj, getrc = wrap(shape, inner)
        b = call(con.build, mkobj(value), **params)
        if not b.ok:
            ctx.tally("rawcopy/unbuildable")
            return None
        fk = focus_kind(spec)
        data = b"\x5a" * start + b.value + b"\xee\xee"
        s = io.BytesIO(data)
        s.seek(start)
        p = call(con.parse_stream, s, **params)
        variable = G.fixed_size(spec) is None
        ctx.record(case, start > 0 or shape != "top" or variable, ["rawcopy/" + shape, "rawcopy/variable" if variable else "rawcopy/fixed"])
        where = "shape=%s start=%d spec=%s params=%s value=%s" % (shape, start, short(spec, 400), params, short(value))
        if not p.ok:
            return Failure("C14/rawcopy/parse-rejects-built/%s" % shape, "parse of built bytes raised %r | %s" % (p, where))
        r = getrc(p.value)
        for key in ("data", "value", "offset1", "offset2", "length"):
            if key not in r:
                return Failure("C14/rawcopy/missing-key", "result lacks %r: %s | %s" % (key, short(r), where))
        if r.data != data[r.offset1:r.offset2]:
            return Failure("C14/rawcopy/data-not-slice/%s" % shape, "data %s != stream[%d:%d] = %s | %s" % (r.data.hex(), r.offset1, r.offset2, data[r.offset1:r.offset2].hex(), where))
        if r.length != r.offset2 - r.offset1 or r.length != len(r.data):
            return Failure("C14/rawcopy/length", "length %r, offsets %r..%r, len(data) %d | %s" % (r.length, r.offset1, r.offset2, len(r.data), where))
        if shape == "top" and (r.offset1 != start or r.offset2 != s.tell()):
            return Failure("C14/rawcopy/offsets", "offsets %d..%d but the parse ran from %d to %d | %s" % (r.offset1, r.offset2, start, s.tell(), where))
        ctxfree = not any(True for _ in G.exprs_in(spec))
        if ctxfree:
            ip = call(inner.parse, r.data, **params)
            if not ip.ok or not lib_eq(ip.value, r.value):
                return Failure("C14/rawcopy/value-not-parse-of-data", "inner.parse(data) -> %r but value is %s | %s" % (ip, short(r.value), where))
        # build from value / data / the whole parsed result
        if shape == "top":
            outs = [call(con.build, dict(value=r.value), **params), call(con.build, dict(data=r.data), **params), call(con.build, r, **params),
                    call(con.build, dict(data=r.data, value=r.value), **params)]
            for i, o in enumerate(outs):
                if not o.ok or o.value != b.value:
                    return Failure("C14/rawcopy/build-forms-differ", "build form %d -> %r, expected %s | %s" % (i, o, b.value.hex(), where))
        else:
            o = call(con.build, p.value, **params)
            if not o.ok or o.value != b.value:
                return Failure("C14/rawcopy/rebuild-from-result/%s" % shape, "build(parse(x)) -> %r, expected %s | %s" % (o, b.value.hex(), where))
        return None
    return oracle


@st.composite
def rawcopy_cases(draw):
    if draw(st.integers(0, 9)) == 0:
        # the region is a length-preserving byte transform: `data` are the bytes on the wire, not the value's own encoding
        n = draw(st.integers(1, 4))
        body = draw(st.sampled_from([["int", n, False, "b", "bi"], ["bytes", n]]))
        spec = draw(st.sampled_from([["byteswapped", body], ["bitsswapped", body], ["fixedsized", n, ["xor", draw(st.sampled_from([0x5a, b"\x01\xff"])), body]]]))
        value = draw(st.binary(min_size=n, max_size=n)) if body[0] == "bytes" else draw(st.integers(0, 256 ** n - 1))
        return [spec, {}, value, draw(st.sampled_from(SHAPES)), draw(st.integers(0, 5))]
    spec, params, value = draw(V.cases(frag=FRAG, depth=2, tail=False))
    return [spec, params, value, draw(st.sampled_from(SHAPES)), draw(st.integers(0, 5))]


def campaign_rawcopy(ctx):
    ctx.search(rawcopy_cases(), rawcopy_oracle(ctx), ctx.budget(16000, 160000))
campaign_rawcopy.shards = (4, 16)


def offsets_oracle(ctx):
    """offsets/length observed while building (Rebuild members computed from this.rc.*) and build_file"""
    def oracle(case):
        spec, params, value, pre = case
        inner = G.realise(spec)
        con = C.Struct("pre" / C.Bytes(len(pre)), "rc" / C.RawCopy(inner), "o1" / C.Rebuild(C.Int16ub, this.rc.offset1), "o2" / C.Rebuild(C.Int16ub, this.rc.offset2),
                       "ln" / C.Rebuild(C.Int16ub, this.rc.length), "copy" / C.Rebuild(C.Bytes(this.ln), this.rc.data))
        obj = dict(pre=pre, rc=dict(value=value))
        b = call(con.build, obj, **params)
        ib = call(inner.build, value, **params)
        if not ib.ok or not b.ok:
            ctx.tally("offsets/unbuildable")
            if ib.ok and not b.ok and not any(True for _ in G.exprs_in(spec)):
                return Failure("C14/rawcopy/build-raises", "inner builds but the RawCopy struct raised %r | spec=%s" % (b, short(spec, 400)))
            return None
        n = len(ib.value)
        ctx.record(case, len(pre) > 0, ["offsets/build"])
        if len(ib.value) > 60000:
            return None
        want = pre + ib.value + len(pre).to_bytes(2, "big") + (len(pre) + n).to_bytes(2, "big") + n.to_bytes(2, "big") + ib.value
        if b.value != want:
            return Failure("C14/rawcopy/build-offsets", "while building, offset1/offset2/length/data were observed as %s, expected %s | spec=%s value=%s" % (
                b.value[len(pre) + n:].hex(), want[len(pre) + n:].hex(), short(spec, 400), short(value)))
        # the whole observing struct inside an OUTER RawCopy that does not start at offset 0, built from value: positions reported
        # by the inner RawCopy (and by Tell) stay absolute offsets of the one real stream
        base = 2
        outer = C.Struct("lead" / C.Bytes(base), "outer" / C.RawCopy(C.Struct(*con.subcons, "t" / C.Tell, "tb" / C.Rebuild(C.Int16ub, this.t))))
        ob = call(outer.build, dict(lead=b"LL", outer=dict(value=dict(obj, t=None, tb=None))), **params)
        pos_t = base + len(want)
        want2 = (b"LL" + pre + ib.value + (base + len(pre)).to_bytes(2, "big") + (base + len(pre) + n).to_bytes(2, "big") + n.to_bytes(2, "big") + ib.value +
                 pos_t.to_bytes(2, "big"))
        ctx.record([case, "outer-rawcopy"], True, ["offsets/inside-outer-rawcopy"])
        if not ob.ok or ob.value != want2:
            return Failure("C14/rawcopy/build-offsets-nested", "observing struct built from value inside an outer RawCopy at offset %d: built %r, expected %s | spec=%s value=%s" % (
                base, ob, want2.hex(), short(spec, 400), short(value)))
        # built into a stream that already holds (longer) content, as when a region is back-patched: the report covers what was
        # written, not what happens to lie behind it
        pre_filled = io.BytesIO(b"\xee" * (len(want) + 9))
        pf = call(con.build_stream, obj, pre_filled, **params)
        got_pf = pre_filled.getvalue()[:len(want)]
        ctx.record([case, "prefilled"], True, ["offsets/prefilled-stream"])
        if not pf.ok or got_pf != want:
            return Failure("C14/rawcopy/build-into-prefilled", "build_stream into a stream that already holds bytes: wrote %s, expected %s (%r) | spec=%s" % (got_pf.hex(), want.hex(), pf, short(spec, 400)))
        # a record PARSED somewhere else and re-used for building: what is reported describes this build, not the old parse
        shifted = C.Struct("junk" / C.Bytes(len(pre) + 2), "rc" / C.RawCopy(inner))
        ps = call(shifted.parse, b"zz" + pre + ib.value, **params)
        if ps.ok and ps.value.rc.data == ib.value:
            for drop in ((), ("data",), ("value",)):
                rec = C.Container(ps.value.rc)
                for key in drop:
                    del rec[key]
                o = call(con.build, dict(pre=pre, rc=rec), **params)
                ctx.record([case, "parsed-record", list(drop)], True, ["offsets/parsed-record-rebuilt"])
                if not o.ok or o.value != want:
                    return Failure("C14/rawcopy/build-offsets-stale", "a record parsed at offset %d (without %s) re-used for building at offset %d: built %r, expected %s | spec=%s value=%s" % (
                        len(pre) + 2, list(drop), len(pre), o, want.hex(), short(spec, 400), short(value)))
        # build_file must agree (RawCopy reads the stream back)
        d = tempfile.mkdtemp(prefix="c14_")
        try:
            fn = os.path.join(d, "out.bin")
            f = call(con.build_file, obj, fn, **params)
            got = open(fn, "rb").read() if os.path.exists(fn) else None
        finally:
            for x in os.listdir(d):
                os.remove(os.path.join(d, x))
            os.rmdir(d)
        if not f.ok or got != want:
            return Failure("C14/rawcopy/build_file", "build_file -> %r, file holds %s, build() gives %s | spec=%s" % (f, None if got is None else got.hex(), want.hex(), short(spec, 400)))
        pf = call(con.parse, want, **params)
        if not pf.ok or pf.value.rc.offset1 != len(pre) or pf.value.rc.data != ib.value:
            return Failure("C14/rawcopy/parse-after-build", "parse of the built struct -> %r" % (pf,))
        return None
    return oracle


@st.composite
def offsets_cases(draw):
    spec, params, value = draw(V.cases(frag=FRAG, depth=2, tail=False))
    return [spec, params, value, draw(st.binary(max_size=4))]


def campaign_offsets(ctx):
    ctx.search(offsets_cases(), offsets_oracle(ctx), ctx.budget(6000, 60000))
campaign_offsets.shards = (2, 8)


# ---------------------------------------------------------------------------------------------
# Checksum
# ---------------------------------------------------------------------------------------------
HASHES = {
    "crc32-ub": (lambda: C.Int32ub, lambda b: zlib.crc32(b) & 0xffffffff, 4),
    "adler32-ul": (lambda: C.Int32ul, lambda b: zlib.adler32(b) & 0xffffffff, 4),
    "md5": (lambda: C.Bytes(16), lambda b: hashlib.md5(b).digest(), 16),
    "sha1": (lambda: C.Bytes(20), lambda b: hashlib.sha1(b).digest(), 20),
    "sha256": (lambda: C.Bytes(32), lambda b: hashlib.sha256(b).digest(), 32),
    "sha256-trunc4": (lambda: C.Bytes(4), lambda b: hashlib.sha256(b).digest()[:4], 4),
    "sum8": (lambda: C.Byte, lambda b: (sum(b) * 31 + len(b)) & 0xff, 1),
    # digests of other legal Python types: a hand-rolled function assembling its result in a bytearray (Bytes builds from one and
    # bytes == bytearray), a hex digest kept as text, and a pair of integers
    "fletcher16-bytearray": (lambda: C.Bytes(2), lambda b: bytearray([sum(b) % 255, sum((len(b) - i) * x for i, x in enumerate(b)) % 255]), 2),
    "sha1-hex8": (lambda: C.PaddedString(8, "ascii"), lambda b: hashlib.sha1(b).hexdigest()[:8], 8),
    "pair-list": (lambda: C.Array(2, C.Byte), lambda b: [sum(b) & 0xff, len(b) & 0xff], 2),
}


def checksum_construct(inner, hname, layout):
    field, fn, n = HASHES[hname]
    if layout == "after":
        return C.Struct("region" / C.RawCopy(inner), "checksum" / C.Checksum(field(), fn, this.region.data))
    if layout == "prefixed":
        return C.Struct("magic" / C.Const(b"\x7fC"), "region" / C.RawCopy(C.Prefixed(C.VarInt, inner)), "checksum" / C.Checksum(field(), fn, this.region.data), "tail" / C.Byte)
    # two regions, digest over the concatenation
    return C.Struct("region" / C.RawCopy(inner), "mid" / C.Byte, "second" / C.RawCopy(C.Int16ul),
                    "checksum" / C.Checksum(field(), fn, lambda ctx: ctx.region.data + ctx.second.data))


def checksum_value(v, layout):
    if layout == "after":
        return dict(region=dict(value=v))
    if layout == "prefixed":
        return dict(region=dict(value=v), tail=3)
    return dict(region=dict(value=v), mid=1, second=dict(value=513))


def checksum_oracle(ctx):
    def oracle(case):
        spec, params, value, hname, layout, mutations = case
        inner = G.realise(spec)
        field, fn, n = HASHES[hname]
        con = checksum_construct(inner, hname, layout)
        b = call(con.build, checksum_value(value, layout), **params)
        if not b.ok:
            ctx.tally("checksum/unbuildable")
            return None
        fk = focus_kind(spec)
        where = "hash=%s layout=%s spec=%s params=%s value=%s" % (hname, layout, short(spec, 300), params, short(value))

        def covered(r):
            return r.region.data + (r.second.data if layout == "two" else b"")
        p = call(con.parse, b.value, **params)
        stable = G.kinds(spec) <= STABLE and G.fixed_size(spec) is not None and layout != "prefixed"
        ctx.record([spec, params, value, hname, layout], True, ["checksum/" + hname, "checksum/" + layout, "checksum/stable" if stable else "checksum/variable"])
        if not p.ok:
            return Failure("C14/checksum/built-does-not-verify/%s" % hname, "parse(build(v)) raised %r | %s" % (p, where))
        if fn(covered(p.value)) != p.value.checksum:
            return Failure("C14/checksum/invariant", "hash(region.data) != checksum on built data | %s" % where)
        # a stale or wrong checksum supplied by the caller (e.g. a parsed result whose region was edited) is recomputed
        stale = dict(checksum_value(value, layout))
        cs = p.value.checksum
        stale["checksum"] = (b"\x00" * n) if isinstance(cs, bytes) else ("0" * n if isinstance(cs, str) else ([0] * n if isinstance(cs, list) else (cs + 1) & 0xff))
        bs = call(con.build, stale, **params)
        if not bs.ok or bs.value != b.value:
            return Failure("C14/checksum/build-uses-supplied-digest/%s" % hname, "build with a stale 'checksum' entry -> %r, expected the recomputed %s | %s" % (bs, b.value.hex(), where))
        # locate covered bytes and digest in the built message
        off1, off2 = p.value.region.offset1, p.value.region.offset2
        spans = [(off1, off2)]
        if layout == "two":
            spans.append((p.value.second.offset1, p.value.second.offset2))
        digest_at = len(b.value) - n - (1 if layout == "prefixed" else 0)
        spans_d = [(digest_at, digest_at + n)]
        if layout == "prefixed":
            # the length prefix is inside the RawCopy region: flipping it changes the structure
            pass
        positions = [(i, bit) for a, z in spans + spans_d for i in range(a, z) for bit in range(8)]
        for i, bit in positions:
            data = bytearray(b.value)
            data[i] ^= 1 << bit
            o = call(con.parse, bytes(data), **params)
            in_digest = digest_at <= i < digest_at + n
            ctx.record([spec, value, hname, layout, i, bit], True, ["corrupt/digest" if in_digest else "corrupt/region"])
            if stable or in_digest:
                # (a flipped top bit in a digest kept as ASCII text is already refused by the text field itself)
                textual = in_digest and hname == "sha1-hex8" and not o.ok and type(o.exc) is C.StringError and bit == 7
                if (o.ok or type(o.exc) is not C.ChecksumError) and not textual:
                    return Failure("C14/checksum/corruption-undetected/%s" % hname, "bit %d of byte %d (%s) flipped: parse -> %r instead of ChecksumError | built %s | %s" % (
                        bit, i, "digest" if in_digest else "covered region", o, b.value.hex(), where))
            else:
                if o.ok:
                    if fn(covered(o.value)) != o.value.checksum:
                        return Failure("C14/checksum/accepted-without-verifying/%s" % hname, "bit %d of byte %d flipped: parse accepted %s but hash(region.data) != checksum | %s" % (
                            bit, i, short(o.value), where))
                    if covered(o.value) == covered(p.value) and o.value.checksum == p.value.checksum:
                        return Failure("C14/checksum/corruption-undetected/%s" % hname, "bit %d of byte %d flipped inside the covered region yet the same region and digest were accepted: %s | %s" % (bit, i, short(o.value), where))
                elif not isinstance(o.exc, C.ConstructError):
                    return Failure("C14/checksum/foreign-exception", "corrupted input raised %r | %s" % (o, where))
        # other mutations: acceptance implies the invariant
        for m in mutations:
            o = call(con.parse, m, **params)
            ctx.record([spec, hname, layout, m], o.ok, ["mutated/" + ("accepted" if o.ok else "rejected")])
            if o.ok and fn(covered(o.value)) != o.value.checksum:
                return Failure("C14/checksum/accepted-without-verifying/%s" % hname, "parse(%s) accepted although hash(region.data) != checksum | %s" % (m.hex(), where))
        return None
    return oracle


@st.composite
def checksum_cases(draw):
    stable = draw(st.booleans())
    frag = STABLE if stable else FRAG
    spec, params, value = draw(V.cases(frag=frozenset(frag), depth=2, tail=False, with_params=not stable))
    hname = draw(st.sampled_from(sorted(HASHES)))
    layout = draw(st.sampled_from(["after", "after", "prefixed", "two"]))
    inner = G.realise(spec)
    con = checksum_construct(inner, hname, layout)
    b = call(con.build, checksum_value(value, layout), **params)
    muts = draw(st.lists(mutated(b.value, max_ops=2), max_size=3)) if b.ok else []
    return [spec, params, value, hname, layout, muts]


def campaign_checksum(ctx):
    ctx.search(checksum_cases(), checksum_oracle(ctx), ctx.budget(3200, 40000))
campaign_checksum.shards = (4, 16)


CAMPAIGNS = {"rawcopy": campaign_rawcopy, "offsets": campaign_offsets, "checksum": campaign_checksum}


def replay(campaign, case):
    class _C:
        def record(self, *a, **k): pass
        def tally(self, *a, **k): pass
    c = _C()
    return {"rawcopy": rawcopy_oracle, "offsets": offsets_oracle, "checksum": checksum_oracle}[campaign](c)(case)
