"""C12 — documented construct equivalences hold extensionally."""
import enum
import io
import itertools
import sys

from hypothesis import strategies as st

import construct as C
from construct import this, len_

from pbt.harness import Failure, call, short
from pbt.props.c02 import lib_eq

RULE = ("every '<-->' law of core.py docstrings and docs/{advanced,bitwise,tunneling,misc}.rst plus the documented operator "
        "spellings, instantiated over widths 1..16 x signed x swapped, all alias names, moduli, counts, enum tables; inputs: all "
        "byte strings of length 0..2 for layouts of at most 2 bytes (quick: all 1-byte + strided 2-byte), random/boundary strings "
        "of the layout length -1/0/+1 beyond; values: boundary and out-of-range integers, bools, floats, None, strings, bytes, "
        "lists, dicts; oracle: both sides parse to equal values with equal stream advance or both reject, both build identical "
        "bytes or both reject. non-trivial = one side rejects (then the other must) or input at a domain boundary, or law "
        "instance with width >= 3 / signed / swapped")
ASSUMPTIONS = ["'reject' means raising any exception (the two sides may use different ConstructError subclasses)",
               "objects that are integers only through __index__ are not generated (outside the documented value types)",
               "the Restreamed docstring lists decoder/encoder in the opposite order to the constructor signature; the law is checked in "
               "the argument order Bitwise/Bytewise actually use"]

NATIVE_SWAPPED = sys.byteorder == "little"


class E1(enum.IntEnum):
    one = 1
    two = 2
    seven = 7


class E2(enum.IntEnum):
    one = 1
    two = 2
    uno = 1         # an alias of `one`: iterating the class yields canonical members only, and so does the merge
    seven = 7


class F2(enum.IntFlag):
    one = 1
    two = 2
    eight = 8
    both = 3        # a composite member: not a canonical member either (Python >= 3.11)
    none = 0


class F1(enum.IntFlag):
    one = 1
    two = 2
    eight = 8


# law name -> function(params) -> (list of equivalent constructs, layout length in bytes or None, value kind)
def law_bytesint_bits(p):
    n, signed, swapped = p
    return [C.BytesInteger(n, signed=signed, swapped=swapped), C.Bitwise(C.BitsInteger(8 * n, signed=signed, swapped=swapped)),
            C.Bitwise(C.Bytewise(C.BytesInteger(n, signed=signed, swapped=swapped)))], n, "int"


def law_int24(p):
    signed, = p
    if signed:
        return [C.Int24sl, C.ByteSwapped(C.Int24sb), C.BytesInteger(3, signed=True, swapped=True), C.ByteSwapped(C.BytesInteger(3, signed=True))], 3, "int"
    return [C.Int24ul, C.ByteSwapped(C.Int24ub), C.BytesInteger(3, swapped=True), C.ByteSwapped(C.BytesInteger(3))], 3, "int"


def law_byteswapped_ctx(p):
    """ByteSwapped(x) presents x with its bytes reversed whatever x is - also when x takes its own byte order from the context"""
    n, signed = p
    return [C.ByteSwapped(C.BytesInteger(n, signed=signed, swapped=this._params.c)),
            C.BytesInteger(n, signed=signed, swapped=lambda ctx: not ctx._params.c),
            C.Transformed(C.BytesInteger(n, signed=signed, swapped=this._params.c), lambda b: b[::-1], n, lambda b: b[::-1], n)], n, "int"


def law_alias(p):
    nbytes, signed, endian = p
    name = "Int%d%s%s" % (8 * nbytes, "s" if signed else "u", endian)
    swapped = {"b": False, "l": True, "n": NATIVE_SWAPPED}[endian]
    sides = [getattr(C, name), C.BytesInteger(nbytes, signed=signed, swapped=swapped)]
    if nbytes != 3:
        fmt = {1: "b", 2: "h", 4: "l", 8: "q"}[nbytes]
        sides.append(C.FormatField({"b": ">", "l": "<", "n": "="}[endian], fmt if signed else fmt.upper()))
    if endian == "l":
        sides.append(C.ByteSwapped(getattr(C, name[:-1] + "b")))
    return sides, nbytes, "int"


def law_short(p):
    name, = p
    other = {"Byte": "Int8ub", "Short": "Int16ub", "Int": "Int32ub", "Long": "Int64ub", "Half": "Float16b", "Single": "Float32b", "Double": "Float64b"}[name]
    size = getattr(C, other).sizeof()
    return [getattr(C, name), getattr(C, other)], size, "float" if name in ("Half", "Single", "Double") else "int"


def law_floatalias(p):
    nbytes, endian = p
    name = "Float%d%s" % (8 * nbytes, endian)
    return [getattr(C, name), C.FormatField({"b": ">", "l": "<", "n": "="}[endian], {2: "e", 4: "f", 8: "d"}[nbytes])], nbytes, "float"


def law_bitalias(p):
    name, = p
    w = {"Bit": 1, "Nibble": 4, "Octet": 8}[name]
    return [C.Bitwise(C.Struct("v" / getattr(C, name), C.Padding(8 - w) if w < 8 else C.Pass)),
            C.Bitwise(C.Struct("v" / C.BitsInteger(w), C.Padding(8 - w) if w < 8 else C.Pass))], 1, "dictint"


def law_optional(p):
    sub, = p
    x = SUBS[sub]()
    return [C.Optional(x), C.Select(x, C.Pass)], None, "any"


def law_if(p):
    cond, sub = p
    x = SUBS[sub]()
    c = {"true": True, "false": False, "this": this._params.c, "lambda": (lambda ctx: ctx._params.c)}[cond]
    return [C.If(c, x), C.IfThenElse(c, x, C.Pass)], None, "any"


def law_if_member(p):
    """the same law where the conditional is a member of a Struct or Sequence (built from dicts/lists that may lack its key)"""
    sub, form = p
    def cond():
        return this.a > 0
    x = SUBS[sub]
    if form == "named":
        return [C.Struct("a" / C.Byte, "b" / C.If(cond(), x())), C.Struct("a" / C.Byte, "b" / C.IfThenElse(cond(), x(), C.Pass))], None, "dictany"
    if form == "anonymous":
        return [C.Struct("a" / C.Byte, C.If(cond(), x())), C.Struct("a" / C.Byte, C.IfThenElse(cond(), x(), C.Pass))], None, "dictany"
    return [C.Sequence("a" / C.Byte, C.If(cond(), x())), C.Sequence("a" / C.Byte, C.IfThenElse(cond(), x(), C.Pass))], None, "list"


def law_padding(p):
    n, pattern = p
    return [C.Padding(n, pattern=pattern), C.Padded(n, C.Pass, pattern=pattern)], n, "none"


def law_prefixedarray(p):
    cf, sub = p
    c = {"Byte": C.Byte, "VarInt": C.VarInt, "Int16ul": C.Int16ul, "Int8sb": C.Int8sb}[cf]
    x = SUBS[sub]()
    return [C.PrefixedArray(c, x),
            C.FocusedSeq("items", "count" / C.Rebuild(c, len_(this.items)), "items" / x[this.count])], None, "list"


def law_prefixedarray_lazyparent(p):
    """the equivalence also holds where a parent measures its members instead of parsing them (PrefixedArray answers through its
    own _actualsize, the expansion is parsed for real): both must leave the parent at the same place"""
    cf, sub, parent = p
    c = {"Byte": C.Byte, "VarInt": C.VarInt, "Int16ul": C.Int16ul, "Int8sb": C.Int8sb}[cf]

    def sides():
        x = SUBS[sub]()
        return [C.PrefixedArray(c, x), C.FocusedSeq("items", "count" / C.Rebuild(c, len_(this.items)), "items" / x[this.count])]

    def wrap(inner):
        if parent == "lazyarray":
            return C.FocusedSeq("m", "l" / C.LazyArray(2, inner), "t" / C.Byte, "m" / C.Computed(lambda ctx: [[list(e) for e in ctx.l], ctx.t]))
        return C.FocusedSeq("m", "l" / C.LazyStruct(inner, "u" / C.Byte, inner), "t" / C.Byte, "m" / C.Computed(lambda ctx: [ctx.l.u, ctx.t]))
    a, b = sides()
    return [wrap(a), wrap(b)], None, "any"


def law_bitstruct(p):
    widths = p[0]
    style = p[1] if len(p) > 1 else "positional"
    if style != "positional":
        # keyword members come after the positional ones, in the order written - in BitStruct as in Struct
        k = 0 if style == "keyword" else max(1, len(widths) // 2)
        def pos():
            return [("f%d" % i) / C.BitsInteger(w) for i, w in enumerate(widths[:k])]
        def kw():
            return {("f%d" % (i + k)): C.BitsInteger(w) for i, w in enumerate(widths[k:])}
        def allpos():
            return [("f%d" % i) / C.BitsInteger(w) for i, w in enumerate(widths)]
        return [C.BitStruct(*pos(), **kw()), C.Bitwise(C.Struct(*pos(), **kw())), C.Bitwise(C.Struct(*allpos()))], sum(widths) // 8, "dictints"
    def members():
        return [("f%d" % i) / C.BitsInteger(w) for i, w in enumerate(widths)] + ([C.Padding(-sum(widths) % 8)] if sum(widths) % 8 else [])
    return [C.BitStruct(*members()), C.Bitwise(C.Struct(*members()))], (sum(widths) + 7) // 8, "dictints"


def law_alignedstruct(p):
    m, subs = p
    def members():
        return [("f%d" % i, SUBS[s]()) for i, s in enumerate(subs)]
    return [C.AlignedStruct(m, *[n / s for n, s in members()]), C.Struct(*[n / C.Aligned(m, s) for n, s in members()])], None, "dictany"


def law_enum(p):
    sub, flags = p
    s = {"Byte": C.Byte, "Int16ul": C.Int16ul, "VarInt": C.VarInt}[sub]
    if flags == "flags-intenum":
        return [C.FlagsEnum(s, E1), C.FlagsEnum(s, one=1, two=2, seven=7)], None, "flags"
    if flags == "flags-intflag":
        return [C.FlagsEnum(s, F1), C.FlagsEnum(s, one=1, two=2, eight=8)], None, "flags"
    if flags == "enum-intflag":
        return [C.Enum(s, F1), C.Enum(s, one=1, two=2, eight=8)], None, "label"
    if flags == "enum-alias":
        return [C.Enum(s, E2), C.Enum(s, one=1, two=2, seven=7)], None, "label"
    if flags == "enum-composite-flag":
        return [C.Enum(s, F2), C.Enum(s, **{m.name: m.value for m in F2})], None, "label"
    if flags == "flags-composite-flag":
        return [C.FlagsEnum(s, F2), C.FlagsEnum(s, **{m.name: m.value for m in F2})], None, "flags"
    return [C.Enum(s, E1), C.Enum(s, one=1, two=2, seven=7)], None, "label"


def law_hex(p):
    kind, sub = p
    x = SUBS[sub]()
    return [(C.Hex if kind == "hex" else C.HexDump)(x), x], None, "any"


def law_operators(p):
    which, a, b, n = p
    x, y = SUBS[a](), SUBS[b]()
    if which == "getitem":
        return [x[n], C.Array(n, x)], None, "list"
    if which == "getitem-this":
        return [x[this._params.c], C.Array(this._params.c, x)], None, "list"
    if which == "plus":
        return [("a" / x) + ("b" / y), C.Struct("a" / x, "b" / y)], None, "dictany"
    if which == "plus3":
        return [("a" / x) + ("b" / y) + ("c" / x), C.Struct("a" / x, "b" / y, "c" / x)], None, "dictany"
    if which == "rshift":
        return [x >> y, C.Sequence(x, y)], None, "list"
    if which == "rshift3":
        return [x >> y >> x, C.Sequence(x, y, x)], None, "list"
    # the operators build NEW constructs: an operand that is itself a Struct/Sequence is merged, stays usable, and stays what it was
    if which == "plus-structs":
        return [C.Struct("a" / x) + C.Struct("b" / y), C.Struct("a" / x, "b" / y)], None, "dictany"
    if which == "plus-reused-left":
        s = C.Struct("a" / x)
        s + ("b" / y)
        return [s + ("c" / x), C.Struct("a" / x, "c" / x)], None, "dictany"
    if which == "plus-left-intact":
        s = C.Struct("a" / x)
        s + ("b" / y)
        return [s, C.Struct("a" / x)], None, "dictany"
    if which == "plus-right-intact":
        s = C.Struct("b" / y)
        ("a" / x) + s
        return [s, C.Struct("b" / y)], None, "dictany"
    if which == "rshift-sequences":
        return [C.Sequence(x) >> C.Sequence(y), C.Sequence(x, y)], None, "list"
    if which == "rshift-reused-left":
        s = C.Sequence(x)
        s >> y
        return [s >> x, C.Sequence(x, x)], None, "list"
    if which == "rshift-left-intact":
        s = C.Sequence(x)
        s >> y
        return [s, C.Sequence(x)], None, "list"
    if which == "rename":
        return [C.Struct("num" / x), C.Struct(C.Renamed(x, newname="num"))], None, "dictany"
    if which == "docs":
        return [C.Struct("num" / (x * "comment")), C.Struct("num" / C.Renamed(x, newdocs="comment"))], None, "dictany"
    raise ValueError(which)


def law_restreamed(p):
    which, widths = p
    def sub():
        return C.Struct("n" / C.BitsInteger(8), "d" / C.Array(this.n, C.BitsInteger(8))) if which == "bitwise" else C.Struct("n" / C.Byte, "d" / C.Bytes(this.n))
    from construct.lib import bytes2bits, bits2bytes
    if which == "bitwise":
        return [C.Bitwise(sub()), C.Restreamed(sub(), bytes2bits, 1, bits2bytes, 8, lambda n: n // 8)], None, "any"
    return [C.Bitwise(C.Bytewise(sub())), C.Bitwise(C.Restreamed(sub(), bits2bytes, 8, bytes2bits, 1, lambda n: n * 8))], None, "any"


SUBS = {
    "Byte": lambda: C.Byte, "Int16ub": lambda: C.Int16ub, "Int16sl": lambda: C.Int16sl, "VarInt": lambda: C.VarInt,
    "Bytes2": lambda: C.Bytes(2), "CString": lambda: C.CString("utf8"), "Flag": lambda: C.Flag, "Const": lambda: C.Const(b"\x01"),
    "PascalString": lambda: C.PascalString(C.Byte, "utf8"), "Float32b": lambda: C.Float32b, "GreedyBytes": lambda: C.GreedyBytes,
    "Struct": lambda: C.Struct("x" / C.Byte, "y" / C.Bytes(this.x)), "Enum": lambda: C.Enum(C.Byte, a=1, b=2),
    "Int24ub": lambda: C.Int24ub, "Computed": lambda: C.Computed(7),
    # elements that look at the scope their repetition runs in (for PrefixedArray: the documented expansion's count and items)
    "BytesCount": lambda: C.Bytes(this.count), "RowOfCount": lambda: C.Byte[this.count],
    "StructUp": lambda: C.Struct("x" / C.Byte, "c" / C.Computed(this._.count), "n" / C.Computed(lambda ctx: len(ctx._.get("items", ())))),
}

LAWS = {"byteswapped-ctx": law_byteswapped_ctx, "bytesint_bits": law_bytesint_bits, "int24": law_int24, "alias": law_alias, "short": law_short, "floatalias": law_floatalias,
        "bitalias": law_bitalias, "optional": law_optional, "if": law_if, "if-member": law_if_member, "padding": law_padding, "prefixedarray": law_prefixedarray, "prefixedarray-lazyparent": law_prefixedarray_lazyparent,
        "bitstruct": law_bitstruct, "alignedstruct": law_alignedstruct, "enum": law_enum, "hex": law_hex, "operators": law_operators,
        "restreamed": law_restreamed}


def instances():
    """all (law, params) instantiations"""
    out = []
    for n in range(1, 17):
        for signed in (False, True):
            for swapped in (False, True):
                out.append(("bytesint_bits", [n, signed, swapped]))
    out += [("int24", [False]), ("int24", [True])]
    for nbytes in (2, 3, 4):
        for signed in (False, True):
            out.append(("byteswapped-ctx", [nbytes, signed]))
    for nbytes in (1, 2, 3, 4, 8):
        for signed in (False, True):
            for endian in "bln":
                out.append(("alias", [nbytes, signed, endian]))
    for name in ("Byte", "Short", "Int", "Long", "Half", "Single", "Double"):
        out.append(("short", [name]))
    for nbytes in (2, 4, 8):
        for endian in "bln":
            out.append(("floatalias", [nbytes, endian]))
    for name in ("Bit", "Nibble", "Octet"):
        out.append(("bitalias", [name]))
    for sub in ("Byte", "Int16ub", "VarInt", "CString", "Const", "PascalString", "Struct", "Computed"):
        out.append(("optional", [sub]))
    for cond in ("true", "false", "this", "lambda"):
        for sub in ("Byte", "Int16sl", "CString", "Struct", "Const", "GreedyBytes"):
            out.append(("if", [cond, sub]))
    for sub in ("Byte", "Int16sl", "CString", "Struct", "Const", "Computed"):
        for form in ("named", "anonymous", "sequence"):
            out.append(("if-member", [sub, form]))
    for n in (0, 1, 2, 5):
        for pat in (b"\x00", b"\xff", b"x"):
            out.append(("padding", [n, pat]))
    for cf in ("Byte", "VarInt", "Int16ul", "Int8sb"):
        for sub in ("Byte", "Int16ub", "CString", "Struct", "Flag", "BytesCount", "RowOfCount", "StructUp"):
            out.append(("prefixedarray", [cf, sub]))
    for cf in ("Byte", "VarInt", "Int16ul"):
        for sub in ("Byte", "Int16ub", "Int24ub", "CString", "VarInt", "Struct", "Flag"):
            for parent in ("lazyarray", "lazystruct"):
                out.append(("prefixedarray-lazyparent", [cf, sub, parent]))
    for widths in ([8], [1, 7], [4, 4], [3, 5, 8], [1, 2, 3], [12, 4], [7, 9], [1], [16], [5, 6, 5], [24, 8], [9]):
        out.append(("bitstruct", [widths]))
        if sum(widths) % 8 == 0 and len(widths) > 1:
            out.append(("bitstruct", [widths, "mixed"]))
            out.append(("bitstruct", [widths, "keyword"]))
    for m in (2, 3, 4, 8):
        for subs in (["Byte"], ["Byte", "Int16ub"], ["Int24ub", "Byte", "CString"], ["VarInt", "Flag"]):
            out.append(("alignedstruct", [m, subs]))
    for sub in ("Byte", "Int16ul", "VarInt"):
        for flags in ("enum-intenum", "enum-intflag", "flags-intenum", "flags-intflag", "enum-alias", "enum-composite-flag", "flags-composite-flag"):
            out.append(("enum", [sub, flags]))
    for kind in ("hex", "hexdump"):
        for sub in ("Byte", "Int16sl", "Bytes2", "Struct", "VarInt", "Float32b", "CString"):
            out.append(("hex", [kind, sub]))
    for which in ("getitem", "getitem-this", "plus", "plus3", "rshift", "rshift3", "rename", "docs", "plus-structs", "plus-reused-left", "plus-left-intact",
                  "plus-right-intact", "rshift-sequences", "rshift-reused-left", "rshift-left-intact"):
        for a, b in (("Byte", "Int16ub"), ("CString", "Byte"), ("Struct", "Flag"), ("VarInt", "Const")):
            for n in (0, 1, 3):
                if which not in ("getitem",) and n != 1:
                    continue
                out.append(("operators", [which, a, b, n]))
    out += [("restreamed", ["bitwise", []]), ("restreamed", ["bytewise", []])]
    return out


def compare(sides, mode, payload, kw, where):
    """all sides must agree with the first one"""
    outs = []
    for con in sides:
        if mode == "parse":
            s = io.BytesIO(payload)
            o = call(con.parse_stream, s, **kw)
            outs.append((o, s.tell()))
        else:
            outs.append((call(con.build, payload, **kw), None))
    o0, t0 = outs[0]
    for i, (o, t) in enumerate(outs[1:], 1):
        if o.ok != o0.ok:
            return Failure("C12/%s/accept-reject" % where[0], "%s %s(%s): side 0 -> %r, side %d -> %r" % (where, mode, short(payload), o0, i, o))
        if o.ok:
            same = lib_eq(o.value, o0.value) if mode == "parse" else o.value == o0.value
            if not same:
                return Failure("C12/%s/%s-differs" % (where[0], mode), "%s %s(%s): side 0 -> %s, side %d -> %s" % (where, mode, short(payload), short(o0.value), i, short(o.value)))
            if mode == "parse" and t != t0:
                return Failure("C12/%s/advance-differs" % where[0], "%s parse(%s): side 0 consumed %d, side %d consumed %d" % (where, short(payload), t0, i, t))
    return None, outs[0][0]


def values_for(kind, layout):
    ints = [0, 1, -1, 2, 127, 128, -128, -129, 255, 256, 32767, 32768, -32768, -32769, 65535, 65536, 2 ** 24 - 1, 2 ** 24, 2 ** 31 - 1, 2 ** 31,
            -2 ** 31, -2 ** 31 - 1, 2 ** 32 - 1, 2 ** 32, 2 ** 63 - 1, 2 ** 63, -2 ** 63, -2 ** 63 - 1, 2 ** 64 - 1, 2 ** 64, 2 ** 127, 2 ** 128 - 1, 2 ** 128, -2 ** 127 - 1]
    if layout:
        b = 8 * layout
        ints += [2 ** b - 1, 2 ** b, 2 ** (b - 1) - 1, 2 ** (b - 1), -2 ** (b - 1), -2 ** (b - 1) - 1]
    odd = [None, True, False, 1.0, 0.5, float("nan"), float("inf"), -0.0, "1", "", b"\x01", b"", [], [1], {}, (1,), 1e39, 3.4028235677973366e+38, 65520.0]
    if kind in ("int", "float"):
        return ints + odd
    if kind == "dictint":
        return [dict(v=x) for x in ints[:12] + odd[:8]] + [{}, None, dict(w=1)]
    if kind == "dictints":
        return [{("f%d" % i): x for i in range(4)} for x in ints[:10] + odd[:6]] + [{}, None, dict(f0=1), dict(f0=1, f1=300, f2=0, f3=0)]
    if kind == "none":
        return [None, 0, b"", b"\x00", "x", {}]
    if kind == "list":
        return [[], [1], [1, 2], [1, 2, 3], [b"a"], [b"ab", b"cd"], [[7]], [[1, 2], [3, 4]], [dict(x=1)], [dict(x=1), dict(x=2)], [300], [0], [0, None], [0, 5], [1, None], [-1], ["a"], ["a", "bc"], [b"ab"], [dict(x=1, y=b"a")], [True, False], None, 5, [None], [1] * 300, (1, 2), "ab", b"ab", [1.5]]
    if kind == "label":
        return ["one", "two", "seven", "eight", "three", "", 1, 2, 7, 8, 3, 0, 255, 256, -1, 65536, None, 1.0, b"one", E1.one, E1.seven, F1.eight, F1.one | F1.two, True, "one|two",
                "uno", "both", "none", E2.uno]
    if kind == "flags":
        return ["one", "two", "one|two", "one | seven", "eight|one", "three", "", 0, 1, 3, 7, 8, 255, 256, -1, None, dict(one=True), dict(one=True, two=False), dict(seven=True, eight=True),
                dict(three=True), dict(three=False), dict(_x=True, one=1), E1.one, F1.one | F1.eight, 1.0, ["one"], b"one", "both", "none", dict(both=True)]
    if kind == "dictany":
        base = [1, 0, 255, 256, -1, 65535, "a", "", b"ab", b"", True, None, 1.5, dict(x=1, y=b"a"), dict(x=0, y=b""), 2 ** 24 - 1, 2 ** 24]
        out = []
        for a in base:
            for b in base[:8]:
                out.append(dict(a=a, b=b, c=a, num=a, f0=a, f1=b, f2=a))
        return out + [{}, None, dict(a=1), dict(num=1), dict(a=0), dict(a=0, c=1), dict(a=2), dict(b=1)]
    # any
    return [None, 0, 1, 255, 256, -1, 65535, 65536, -32768, -32769, True, 1.5, float("nan"), "", "a", "aé", "a\x00b", b"", b"ab", b"abc", b"\x01", [], {}, dict(x=1, y=b"a"), dict(x=2, y=b"a"), dict(n=1, d=[5]),
            dict(n=1, d=b"a"), dict(n=0, d=[]), dict(n=2, d=[1]), "a" * 300, 7]


def layout_inputs(layout, thorough):
    """byte strings for parse"""
    if layout is not None and layout <= 2:
        yield b""
        for a in range(256):
            yield bytes([a])
        step = 1 if thorough else 23
        for v in range(0, 65536, step):
            yield v.to_bytes(2, "big")
        for extra in (b"\x00\x00\x00", b"\xff\xff\xff", b"\x80\x00\x01"):
            yield extra
        return
    L = layout if layout is not None else 3
    pats = [0x00, 0xff, 0x80, 0x7f, 0x01, 0x02, 0xfe, 0x55]
    for ln in sorted({0, 1, 2, 3, max(L - 1, 0), L, L + 1, L + 2}):
        for p in pats:
            yield bytes([p]) * ln
            if ln:
                yield bytes([p]) + b"\x00" * (ln - 1)
                yield b"\x00" * (ln - 1) + bytes([p])
                yield bytes((p + i) & 0xff for i in range(ln))


def campaign_enum(ctx):
    insts = instances()
    for i, (law, params) in enumerate(insts):
        if i % ctx.nshards != ctx.shard:
            continue
        sides, layout, vkind = LAWS[law](params)
        where = (law, params)
        kws = [dict(c=1), dict(c=0), dict(c=3)] if (law == "if" and params[0] in ("this", "lambda")) or (law == "operators" and params[0] == "getitem-this") else [{}]
        if law == "byteswapped-ctx":
            kws = [dict(c=False), dict(c=True), dict(c=0), dict(c=1)]
        for kw in kws:
            for data in layout_inputs(layout, ctx.thorough):
                r = compare(sides, "parse", data, kw, where)
                f = r[0] if isinstance(r, tuple) else r
                o0 = r[1] if isinstance(r, tuple) else None
                ctx.record([law, params, "parse", data, kw], (o0 is not None and not o0.ok) or law not in ("short",) , ["law/" + law, "parse"])
                if ctx.handle(f, [law, params, "parse", data, kw]):
                    break
            for v in values_for(vkind, layout):
                r = compare(sides, "build", v, kw, where)
                f = r[0] if isinstance(r, tuple) else r
                o0 = r[1] if isinstance(r, tuple) else None
                ctx.record([law, params, "build", _j(v), kw], True, ["law/" + law, "build", "build-rejected" if (o0 is not None and not o0.ok) else "build-accepted"])
                if ctx.handle(f, [law, params, "build", _j(v), kw]):
                    break
    ctx.exhaustive("every law instance (%d) x layout byte strings (all of length 0..2 for layouts <= 2 bytes%s) x value table" % (
        len(insts), "" if ctx.thorough else ", 2-byte strided"))
campaign_enum.shards = (8, 16)


def _j(v):
    if isinstance(v, enum.Enum):
        return {"$enum": [type(v).__name__, int(v)]}
    return v


def _unj(v):
    if isinstance(v, dict) and "$enum" in v:
        return {"E1": E1, "F1": F1}[v["$enum"][0]](v["$enum"][1])
    return v


def random_oracle(ctx):
    insts = instances()

    def oracle(case):
        idx, mode, payload, c = case
        law, params = insts[idx]
        sides, layout, vkind = LAWS[law](params)
        kw = dict(c=c)
        r = compare(sides, mode, payload, kw, (law, params))
        f = r[0] if isinstance(r, tuple) else r
        ctx.record([law, params, mode, payload, kw], True, ["law/" + law, "random-" + mode])
        return f
    return oracle


@st.composite
def random_cases(draw):
    insts = instances()
    idx = draw(st.integers(0, len(insts) - 1))
    law, params = insts[idx]
    _, layout, vkind = LAWS[law](params)
    mode = draw(st.sampled_from(["parse", "build"]))
    if mode == "parse":
        L = layout if layout is not None else draw(st.integers(0, 6))
        payload = draw(st.binary(min_size=max(0, L - 1), max_size=L + 2))
    else:
        ints = st.one_of(st.integers(-2 ** 130, 2 ** 130), st.integers(-300, 300))
        if vkind in ("int", "float"):
            payload = draw(st.one_of(ints, st.floats(), st.booleans()))
        elif vkind == "list":
            payload = draw(st.lists(st.one_of(st.integers(-2, 300), st.text(max_size=3), st.fixed_dictionaries({"x": st.integers(0, 3), "y": st.binary(max_size=3)})), max_size=5))
        elif vkind in ("dictany", "dictints", "dictint"):
            payload = draw(st.dictionaries(st.sampled_from(["a", "b", "c", "num", "f0", "f1", "f2", "v"]), st.one_of(st.integers(-2, 70000), st.text(max_size=3), st.binary(max_size=3), st.booleans()), max_size=6))
        elif vkind == "flags":
            payload = draw(st.one_of(st.integers(-1, 300), st.dictionaries(st.sampled_from(["one", "two", "seven", "eight", "nine", "_p"]), st.booleans()),
                                     st.lists(st.sampled_from(["one", "two", "seven", "eight", "x", " "]), max_size=3).map("|".join)))
        elif vkind == "label":
            payload = draw(st.one_of(st.integers(-1, 70000), st.sampled_from(["one", "two", "seven", "eight", "x", ""])))
        else:
            payload = draw(st.one_of(ints, st.text(max_size=4), st.binary(max_size=4), st.none(), st.fixed_dictionaries({"x": st.integers(0, 3), "y": st.binary(max_size=3)})))
    return [idx, mode, payload, draw(st.integers(0, 3))]


def campaign_random(ctx):
    ctx.search(random_cases(), random_oracle(ctx), ctx.budget(30000, 300000))
campaign_random.shards = (8, 16)


CAMPAIGNS = {"enum": campaign_enum, "random": campaign_random}


def replay(campaign, case):
    class _C:
        def record(self, *a, **k): pass
    if campaign == "random":
        return random_oracle(_C())(case)
    law, params, mode, payload, kw = case
    sides, layout, vkind = LAWS[law](params)
    r = compare(sides, mode, _unj(payload), kw, (law, params))
    return r[0] if isinstance(r, tuple) else r
