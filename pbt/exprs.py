"""Expression ASTs: translation to construct.expr objects and an independent native evaluator.

AST (JSON-serialisable lists):
    ["this", [names...], style]     this.a / this["a"] / this._.a / this._params.k   (style: "attr" | "item")
    ["obj", [names...]]             obj_ / obj_.x
    ["const", value]
    ["bin", op, lhs, rhs]           op in BINOPS (Python spelling)
    ["un", op, operand]             op in "-", "+", "~"   ("~" means logical not, documented)
    ["fn", name, operand]           name in len sum min max abs
"""
import operator

BINOPS = {
    "+": operator.add, "-": operator.sub, "*": operator.mul, "/": operator.truediv, "//": operator.floordiv,
    "%": operator.mod, "**": operator.pow, "^": operator.xor, "<<": operator.lshift, ">>": operator.rshift,
    "&": operator.and_, "|": operator.or_,
    "<": operator.lt, "<=": operator.le, ">": operator.gt, ">=": operator.ge, "==": operator.eq, "!=": operator.ne,
}
ARITH = ["+", "-", "*", "/", "//", "%", "**", "^", "<<", ">>", "&", "|"]
COMPARE = ["<", "<=", ">", ">=", "==", "!="]
UNOPS = {"-": operator.neg, "+": operator.pos, "~": operator.not_}
FUNCS = {"len": len, "sum": sum, "min": min, "max": max, "abs": abs}


class TooBig(Exception):
    """the native value would be astronomically large; the case is skipped (not a library matter)"""


def to_expr(ast):
    """AST -> construct.expr object (or a plain constant)"""
    from construct import this, obj_, len_, sum_, min_, max_, abs_
    k = ast[0]
    if k == "this":
        e = this
        for n in ast[1]:
            e = getattr(e, n) if ast[2] == "attr" else e[n]
        return e
    if k == "obj":
        e = obj_
        for n in ast[1]:
            e = getattr(e, n) if isinstance(n, str) else e[n]
        return e
    if k == "const":
        return ast[1]
    if k == "bin":
        return BINOPS[ast[1]](to_expr(ast[2]), to_expr(ast[3]))
    if k == "un":
        if ast[1] == "~":
            return ~to_expr(ast[2])
        return UNOPS[ast[1]](to_expr(ast[2]))
    if k == "fn":
        f = dict(len=len_, sum=sum_, min=min_, max=max_, abs=abs_)[ast[1]]
        return f(to_expr(ast[2]))
    if k == "lam":
        # ["lam", "py", e]: the same function of the context as e, but an ordinary Python callable (no repr to inline)
        # ["lam", "attr", e]: likewise, written with attribute access on the context (ctx._.n): a missing entry is an AttributeError
        if ast[1] == "attr":
            inner = ast[2]
            return lambda ctx: _pyeval(inner, ctx)
        f = to_expr(ast[2])
        return (lambda ctx: f(ctx)) if callable(f) else (lambda ctx: f)
    raise ValueError(ast)


def _pyeval(ast, ctx):
    """what a hand-written lambda using attribute access computes"""
    k = ast[0]
    if k == "this":
        v = ctx
        for n in ast[1]:
            v = getattr(v, n)
        return v
    if k == "const":
        return ast[1]
    if k == "bin":
        return BINOPS[ast[1]](_pyeval(ast[2], ctx), _pyeval(ast[3], ctx))
    if k == "un":
        return UNOPS[ast[1]](_pyeval(ast[2], ctx))
    if k == "fn":
        return FUNCS[ast[1]](_pyeval(ast[2], ctx))
    raise ValueError(ast)


def is_const(ast):
    return ast[0] == "const"


def has_placeholder(ast):
    k = ast[0]
    if k in ("this", "obj"):
        return True
    if k == "const":
        return False
    if k == "bin":
        return has_placeholder(ast[2]) or has_placeholder(ast[3])
    return has_placeholder(ast[2])


def roots(ast):
    """set of placeholder roots used: {"this"}, {"obj"}, both or none"""
    k = ast[0]
    if k in ("this", "obj"):
        return {k}
    if k == "const":
        return set()
    if k == "bin":
        return roots(ast[2]) | roots(ast[3])
    return roots(ast[2])


def depth(ast):
    k = ast[0]
    if k in ("this", "obj", "const"):
        return 0
    if k == "bin":
        return 1 + max(depth(ast[2]), depth(ast[3]))
    return 1 + depth(ast[2])


def _size_guard(op, l, r):
    if op == "**":
        if isinstance(l, (int, float)) and isinstance(r, (int, float)) and not isinstance(l, bool):
            if abs(l) > 1 and abs(r) > 512:
                raise TooBig
            if isinstance(l, int) and l.bit_length() > 4096 and abs(r) > 1:
                raise TooBig
    if op == "<<":
        if isinstance(r, int) and r > 4096:
            raise TooBig
    if op == "*":
        for x, y in ((l, r), (r, l)):
            if isinstance(x, (str, bytes, list, tuple)) and isinstance(y, int) and y * max(1, len(x)) > 100000:
                raise TooBig
        if isinstance(l, int) and isinstance(r, int) and l.bit_length() + r.bit_length() > 200000:
            raise TooBig


def evaluate(ast, ctx, obj=None):
    """independent evaluation on concrete values with the operator module"""
    k = ast[0]
    if k == "this":
        v = ctx
        for n in ast[1]:
            v = v[n]
        return v
    if k == "obj":
        v = obj
        for n in ast[1]:
            v = v[n]
        return v
    if k == "const":
        return ast[1]
    if k == "bin":
        l = evaluate(ast[2], ctx, obj)
        r = evaluate(ast[3], ctx, obj)
        _size_guard(ast[1], l, r)
        return BINOPS[ast[1]](l, r)
    if k == "un":
        return UNOPS[ast[1]](evaluate(ast[2], ctx, obj))
    if k == "fn":
        return FUNCS[ast[1]](evaluate(ast[2], ctx, obj))
    if k == "lam":
        return evaluate(ast[2], ctx, obj)
    raise ValueError(ast)


def show(ast):
    """Python spelling of the AST (for messages)"""
    k = ast[0]
    if k == "this":
        return "this" + "".join((".%s" % n) if ast[2] == "attr" else "[%r]" % n for n in ast[1])
    if k == "obj":
        return "obj_" + "".join((".%s" % n) if isinstance(n, str) else "[%r]" % n for n in ast[1])
    if k == "const":
        return repr(ast[1])
    if k == "bin":
        return "(%s %s %s)" % (show(ast[2]), ast[1], show(ast[3]))
    if k == "un":
        return "(%s%s)" % (ast[1], show(ast[2]))
    if k == "lam":
        return "(lambda ctx: %s)" % show(ast[2])
    return "%s_(%s)" % (ast[1], show(ast[2]))
