"""Runner:  python -m pbt.run <ID> quick|thorough      |      python -m pbt.run <ID> --replay <file>

Exit codes: 0 property held on everything explored (KNOWN-FINDING lines allowed),
            1 with `VIOLATION property=<ID> replay=<path>` for each unknown violation,
            2 harness error (never reported as a violation).
"""
import os
import sys

VERIF_DIR = os.path.dirname(os.path.dirname(os.path.abspath(__file__)))
REPO = os.environ.get("VERIF_REPO", "/repo")


def _bootstrap():
    # re-exec once so that hash randomisation is pinned even when invoked without ./check
    if os.environ.get("PYTHONHASHSEED") != "0":
        os.environ["PYTHONHASHSEED"] = "0"
        os.environ["PYTHONDONTWRITEBYTECODE"] = "1"
        os.execv(sys.executable, [sys.executable, "-m", "pbt.run"] + sys.argv[1:])
    sys.dont_write_bytecode = True
    # code under test comes from the current working tree of the repository
    for p in (os.path.join(VERIF_DIR, "stubs"), REPO):
        if p in sys.path:
            sys.path.remove(p)
    sys.path.insert(0, os.path.join(VERIF_DIR, "stubs"))
    sys.path.insert(0, REPO)
    deps = os.path.join(VERIF_DIR, ".deps")
    if os.path.isdir(deps) and deps not in sys.path:
        sys.path.append(deps)
    os.environ["CONSTRUCT_VERIF"] = "1"


_bootstrap()

import glob  # noqa: E402
import importlib  # noqa: E402
import json  # noqa: E402
import time  # noqa: E402
import traceback  # noqa: E402
from concurrent.futures import ProcessPoolExecutor  # noqa: E402

from pbt.harness import (Ctx, Failure, Stats, jdec, jenc, load_known_findings,  # noqa: E402
                         stable_hash)


def _check_import():
    import construct
    f = os.path.realpath(construct.__file__)
    if not f.startswith(os.path.realpath(REPO) + os.sep):
        print("HARNESS-ERROR: construct imported from %s, expected under %s" % (f, REPO))
        sys.exit(2)


def _worker(args):
    prop, campaign, tier, seed, shard, nshards = args
    t0 = time.time()
    try:
        from pbt.harness import limit_memory
        limit_memory()
        mod = importlib.import_module("pbt.props." + prop.lower())
        known = load_known_findings().get(prop, {})
        ctx = Ctx(prop, tier, seed, shard, nshards, campaign, known)
        mod.CAMPAIGNS[campaign](ctx)
        ctx.stats.notes["wall_s/" + campaign] = round(time.time() - t0, 2)
        return ctx.stats
    except BaseException:  # noqa
        s = Stats()
        s.harness_errors.append("campaign %s shard %d crashed:\n%s" % (campaign, shard, traceback.format_exc()))
        return s


def _shards(func, tier):
    q, t = getattr(func, "shards", (1, 4))
    return t if tier == "thorough" else q


def write_replay(prop, v):
    outdir = os.path.join(os.environ.get("VERIF_OUT_DIR") or os.path.join(VERIF_DIR, "out"), "replays")
    os.makedirs(outdir, exist_ok=True)
    h = "%016x" % stable_hash([v["bucket"], v["case"]])
    path = os.path.join(outdir, "%s-%s.json" % (prop, h))
    with open(path, "w") as f:
        json.dump(dict(property=prop, campaign=v["campaign"], bucket=v["bucket"], detail=v["detail"],
                       case=v["case"], expect="pass"), f, indent=1)
    return path


def run_replay_file(mod, path):
    rec = json.load(open(path))
    case = jdec(rec["case"])
    return rec, mod.replay(rec.get("campaign", ""), case)


def main(argv):
    if len(argv) < 2:
        print(__doc__)
        return 2
    prop = argv[0].upper()
    _check_import()
    mod = importlib.import_module("pbt.props." + prop.lower())
    seed = int(os.environ.get("VERIF_SEED", "1") or "1")

    if argv[1] == "--replay":
        rec, f = run_replay_file(mod, argv[2])
        if f is None:
            print("replay %s: property held" % argv[2])
            return 0
        print("replay %s: %s: %s" % (argv[2], f.bucket, f.detail))
        known = load_known_findings().get(prop, {})
        if f.bucket in known:
            print("KNOWN-FINDING: property=%s %s" % (prop, known[f.bucket]))
            return 0
        print("VIOLATION property=%s replay=%s" % (prop, argv[2]))
        return 1

    tier = os.environ.get("VERIF_TIER") or argv[1]
    if tier not in ("quick", "thorough"):
        print("tier must be quick or thorough")
        return 2
    t0 = time.time()
    known = load_known_findings().get(prop, {})
    total = Stats()
    violations = []

    # 1. replay tier: committed minimal reproductions (seconds)
    replayed = 0
    for path in sorted(glob.glob(os.path.join(VERIF_DIR, "replays", prop, "*.json"))):
        try:
            rec, f = run_replay_file(mod, path)
        except Exception:  # noqa
            total.harness_errors.append("replay %s crashed:\n%s" % (path, traceback.format_exc()))
            continue
        replayed += 1
        total.evaluations += 1
        expect = rec.get("expect", "pass")
        if f is None:
            if expect == "known":
                print("NOTE: committed known finding %s no longer reproduces" % os.path.relpath(path, VERIF_DIR))
            continue
        if f.bucket in known:
            total.known_hits[f.bucket] = total.known_hits.get(f.bucket, 0) + 1
            continue
        violations.append((f, os.path.relpath(path, VERIF_DIR)))

    # 2. generated-input campaigns
    tasks = []
    for name, func in mod.CAMPAIGNS.items():
        n = _shards(func, tier)
        for s in range(n):
            tasks.append((prop, name, tier, seed, s, n))
    workers = int(os.environ.get("VERIF_WORKERS", "0")) or min(16, max(1, len(tasks)))
    if workers == 1 or len(tasks) == 1:
        results = [_worker(t) for t in tasks]
    else:
        with ProcessPoolExecutor(max_workers=workers) as ex:
            results = list(ex.map(_worker, tasks))
    for r in results:
        total.merge(r)

    # one violation per bucket (root cause); smallest case
    best = {}
    for v in total.violations:
        cur = best.get(v["bucket"])
        if cur is None or len(json.dumps(v["case"])) < len(json.dumps(cur["case"])):
            best[v["bucket"]] = v
    for b, v in sorted(best.items()):
        violations.append((Failure(v["bucket"], v["detail"]), write_replay(prop, v)))

    wall = time.time() - t0
    # 3. evidence
    samples = total.samples or [{"note": "no non-trivial case recorded"}]
    ev = dict(
        property_id=prop, tier=tier, seed=seed, level="exploration",
        coverage=dict(
            evaluations=total.evaluations,
            distinct_nontrivial=len(total.nontrivial),
            rule=getattr(mod, "RULE", ""),
            samples=samples,
            histogram=dict(sorted(total.hist.items())),
            exhaustive_subdomains=sorted(set(total.exhaustive)),
            exhaustive=False,
            known_findings_hit=total.known_hits,
            replayed_regressions=replayed,
            campaigns=sorted(mod.CAMPAIGNS),
            notes=total.notes,
        ),
        assumptions=list(getattr(mod, "ASSUMPTIONS", [])),
        wall_s=round(wall, 2),
        violations=len(violations),
    )
    evdir = os.environ.get("VERIF_EVIDENCE_DIR") or os.path.join(VERIF_DIR, "evidence")
    os.makedirs(evdir, exist_ok=True)
    with open(os.path.join(evdir, prop + ".json"), "w") as f:
        json.dump(ev, f, indent=1, sort_keys=False)
        f.write("\n")

    # 4. report
    print("%s %s seed=%d: %d evaluations, %d distinct non-trivial, %.1fs" % (
        prop, tier, seed, total.evaluations, len(total.nontrivial), wall))
    for b, what in sorted(known.items()):
        print("KNOWN-FINDING: property=%s %s [bucket %s, hit %d times in this run]" % (
            prop, what, b, total.known_hits.get(b, 0)))
    if total.harness_errors:
        for e in total.harness_errors:
            print("HARNESS-ERROR: " + e)
        return 2
    if violations:
        for f, path in violations:
            print("  %s: %s" % (f.bucket, f.detail))
            print("VIOLATION property=%s replay=%s" % (prop, path))
        return 1
    return 0


if __name__ == "__main__":
    sys.exit(main(sys.argv[1:]))
