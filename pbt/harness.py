"""Shared harness: failure objects, statistics, JSON codec for replay files, Hypothesis driver.

Every property module (pbt/props/cNN.py) exposes

    CAMPAIGNS : dict  name -> function(ctx)          # one generated-input search each
    replay(case) -> Failure | None                    # re-run one saved case without Hypothesis
    RULE : str                                        # how cases are generated / what is non-trivial

A campaign function receives a `Ctx` and calls `ctx.search(...)` (Hypothesis) or `ctx.check_case(...)`
(enumeration).  The oracle it passes returns None (property held) or a `Failure`.
"""
import hashlib
import json
import math
import os
import sys
import time
import traceback

import hypothesis
from hypothesis import HealthCheck, Phase, Verbosity, given, settings
from hypothesis import strategies as st

import warnings
warnings.filterwarnings("ignore", category=hypothesis.errors.HypothesisWarning)

VERIF_DIR = os.path.dirname(os.path.dirname(os.path.abspath(__file__)))


# ---------------------------------------------------------------------------------------------
# failures
# ---------------------------------------------------------------------------------------------
class Failure:
    """An observed violation of a property.  `bucket` is a narrow root-cause key used to match the
    known-findings file; `detail` is human readable."""

    def __init__(self, bucket, detail):
        self.bucket = bucket
        self.detail = detail

    def __repr__(self):
        return "Failure(%r, %r)" % (self.bucket, self.detail)


class PropertyViolation(Exception):
    def __init__(self, failure):
        super().__init__("%s: %s" % (failure.bucket, failure.detail))
        self.failure = failure


class HarnessError(Exception):
    pass


class Outcome:
    """Result of calling library code: either a value or the exception it raised."""
    __slots__ = ("ok", "value", "exc")

    def __init__(self, ok, value=None, exc=None):
        self.ok = ok
        self.value = value
        self.exc = exc

    @property
    def kind(self):
        return "ok" if self.ok else type(self.exc).__name__

    def __repr__(self):
        if self.ok:
            return "ok(%s)" % (short(self.value),)
        return "raised %s(%s)" % (type(self.exc).__name__, short(str(self.exc), 120))


class CaseTimeout(BaseException):
    """safety net: one oracle evaluation ran for longer than CASE_TIMEOUT_S seconds (reported as harness error,
    never as a violation)"""


CASE_TIMEOUT_S = 60


def _alarm(signum, frame):
    raise CaseTimeout()


def arm_watchdog(seconds=CASE_TIMEOUT_S):
    import signal
    try:
        signal.signal(signal.SIGALRM, _alarm)
        signal.setitimer(signal.ITIMER_REAL, seconds)
    except (ValueError, AttributeError):
        pass


def disarm_watchdog():
    import signal
    try:
        signal.setitimer(signal.ITIMER_REAL, 0)
    except (ValueError, AttributeError):
        pass


class cpu_limit:
    """Context manager: more than `seconds` of *CPU time* (ITIMER_VIRTUAL, independent of machine load) inside the
    block raises OpBudgetExceeded.  Used as the termination bound where reads go through library-internal
    substreams that an operation-counting outer stream cannot see."""

    def __init__(self, seconds):
        self.seconds = seconds

    def _fire(self, signum, frame):
        raise OpBudgetExceeded("more than %s CPU seconds" % self.seconds)

    def __enter__(self):
        import signal
        try:
            self.old = signal.signal(signal.SIGVTALRM, self._fire)
            signal.setitimer(signal.ITIMER_VIRTUAL, self.seconds)
        except (ValueError, AttributeError):
            self.old = None
        return self

    def __exit__(self, *a):
        import signal
        try:
            signal.setitimer(signal.ITIMER_VIRTUAL, 0)
            if self.old is not None:
                signal.signal(signal.SIGVTALRM, self.old)
        except (ValueError, AttributeError):
            pass
        return False


def limit_memory(gb=6):
    try:
        import resource
        resource.setrlimit(resource.RLIMIT_AS, (gb << 30, gb << 30))
    except Exception:
        pass
    try:    # kill -USR1 <worker pid> prints where a busy worker is (diagnostics only)
        import faulthandler
        import signal
        faulthandler.register(signal.SIGUSR1, all_threads=True)
    except Exception:
        pass


class OpBudgetExceeded(BaseException):
    """Raised by CountingStream; BaseException so `except Exception` in the library cannot swallow it."""


def call(fn, *args, **kw):
    """Run library code, capturing any exception (but not harness-level BaseExceptions)."""
    try:
        return Outcome(True, fn(*args, **kw))
    except OpBudgetExceeded:
        raise
    except RecursionError as e:
        return Outcome(False, exc=e)
    except Exception as e:  # noqa
        return Outcome(False, exc=e)


def guarded(oracle, case, prop):
    """Run an oracle.  An exception that escapes it is a harness error, unless it was raised from inside the library under
    test (a frame of the construct package is on the traceback): then the library did something the oracle's explicit
    `call(...)` sites did not anticipate, which is reported as a violation with its own bucket rather than as exit 2."""
    try:
        return oracle(case)
    except (PropertyViolation, OpBudgetExceeded, CaseTimeout):
        raise
    except Exception as e:  # noqa
        tb = e.__traceback__
        lib_frames = []
        while tb is not None:
            fn = tb.tb_frame.f_code.co_filename
            if (os.sep + "construct" + os.sep) in fn and (os.sep + "pbt" + os.sep) not in fn:
                lib_frames.append("%s:%d in %s" % (os.path.basename(fn), tb.tb_lineno, tb.tb_frame.f_code.co_name))
            tb = tb.tb_next
        if not lib_frames:
            raise
        return Failure("%s/unanticipated-library-exception/%s" % (prop, type(e).__name__),
                       "%s: %s raised inside the library at %s (outside the oracle's guarded calls)" % (type(e).__name__, short(str(e), 200), " <- ".join(lib_frames[-3:])))


def short(x, n=200):
    try:
        s = repr(x)
    except Exception as e:  # noqa
        s = "<unreprable %s>" % type(x).__name__
    return s if len(s) <= n else s[:n] + "...(%d)" % len(s)


# ---------------------------------------------------------------------------------------------
# JSON codec for cases (bytes, floats, tuples, non-string keys survive)
# ---------------------------------------------------------------------------------------------
def jenc(x):
    if x is None or isinstance(x, (bool, str)):
        return x
    if isinstance(x, int):
        return int(x)
    if isinstance(x, float):
        if math.isnan(x) or math.isinf(x) or (x == 0.0 and math.copysign(1, x) < 0):
            return {"$f": x.hex() if not math.isnan(x) else "nan"}
        return x
    if isinstance(x, (bytes, bytearray)):
        return {"$b": bytes(x).hex()}
    if isinstance(x, tuple):
        return {"$t": [jenc(i) for i in x]}
    if isinstance(x, list):
        return [jenc(i) for i in x]
    if isinstance(x, dict):
        if all(isinstance(k, str) and not k.startswith("$") for k in x):
            return {k: jenc(v) for k, v in dict.items(x)}
        return {"$d": [[jenc(k), jenc(v)] for k, v in dict.items(x)]}
    if isinstance(x, (set, frozenset)):
        return {"$s": sorted((jenc(i) for i in x), key=repr)}
    return {"$repr": repr(x)}


def jdec(x):
    if isinstance(x, list):
        return [jdec(i) for i in x]
    if isinstance(x, dict):
        if len(x) == 1:
            (k, v), = x.items()
            if k == "$b":
                return bytes.fromhex(v)
            if k == "$f":
                return float("nan") if v == "nan" else float.fromhex(v)
            if k == "$t":
                return tuple(jdec(i) for i in v)
            if k == "$d":
                return {jdec(a): jdec(b) for a, b in v}
            if k == "$s":
                return set(jdec(i) for i in v)
            if k == "$repr":
                return v
        return {k: jdec(v) for k, v in x.items()}
    return x


def stable_hash(x):
    s = json.dumps(jenc(x), sort_keys=True, separators=(",", ":"))
    return int.from_bytes(hashlib.blake2b(s.encode(), digest_size=8).digest(), "big")


# ---------------------------------------------------------------------------------------------
# known findings
# ---------------------------------------------------------------------------------------------
def load_known_findings():
    """known_findings.txt: one finding per line
         known: property=<ID> bucket=<bucket> :: <what fails>
         fixed: property=<ID> <commit> <what failed>
    Only `known:` lines silence anything, and only the exact bucket."""
    path = os.path.join(VERIF_DIR, "known_findings.txt")
    known = {}
    if not os.path.exists(path):
        return known
    for line in open(path, encoding="utf8"):
        line = line.strip()
        if not line.startswith("known:"):
            continue
        body = line[len("known:"):].strip()
        head, _, what = body.partition("::")
        fields = dict(f.split("=", 1) for f in head.split() if "=" in f)
        known.setdefault(fields["property"], {})[fields["bucket"]] = what.strip()
    return known


# ---------------------------------------------------------------------------------------------
# statistics gathered by one campaign in one process
# ---------------------------------------------------------------------------------------------
class Stats:
    MAX_SAMPLES = 6

    def __init__(self):
        self.evaluations = 0
        self.nontrivial = set()
        self.hist = {}
        self.samples = []
        self.known_hits = {}
        self.violations = []  # list of dict(bucket, detail, case, campaign)
        self.exhaustive = []
        self.harness_errors = []
        self.notes = {}

    def merge(self, other):
        self.evaluations += other.evaluations
        self.nontrivial |= other.nontrivial
        for k, v in other.hist.items():
            self.hist[k] = self.hist.get(k, 0) + v
        for s in other.samples:
            if len(self.samples) < 24:
                self.samples.append(s)
        for k, v in other.known_hits.items():
            self.known_hits[k] = self.known_hits.get(k, 0) + v
        self.violations.extend(other.violations)
        self.exhaustive.extend(other.exhaustive)
        self.harness_errors.extend(other.harness_errors)
        for k, v in other.notes.items():
            self.notes[k] = self.notes.get(k, 0) + v if isinstance(v, (int, float)) else v


class Ctx:
    """Handed to a campaign.  One per (campaign, shard) process."""

    def __init__(self, prop, tier, seed, shard=0, nshards=1, campaign="", known=None):
        self.prop = prop
        self.tier = tier
        self.seed = seed
        self.shard = shard
        self.nshards = nshards
        self.campaign = campaign
        self.known = known or {}
        self.stats = Stats()
        self._sample_every = 1

    # -- budgets -------------------------------------------------------------------------
    @property
    def thorough(self):
        return self.tier == "thorough"

    def budget(self, quick, thorough):
        """Total case budget for the campaign in this tier, divided over shards."""
        total = thorough if self.thorough else quick
        return max(1, total // self.nshards)

    # -- bookkeeping ---------------------------------------------------------------------
    def tally(self, label, n=1):
        self.stats.hist[label] = self.stats.hist.get(label, 0) + n

    def note(self, key, value):
        self.stats.notes[key] = value

    def record(self, case, nontrivial, labels=()):
        """Count one oracle evaluation."""
        st_ = self.stats
        st_.evaluations += 1
        for l in labels:
            st_.hist[l] = st_.hist.get(l, 0) + 1
        if nontrivial:
            h = stable_hash(case)
            if h not in st_.nontrivial:
                st_.nontrivial.add(h)
                n = len(st_.nontrivial)
                # keep the first few and then exponentially spaced later ones
                if len(st_.samples) < Stats.MAX_SAMPLES and (n <= 3 or (n & (n - 1)) == 0):
                    st_.samples.append(jenc(case))

    def exhaustive(self, name):
        self.stats.exhaustive.append(name)

    # -- failures ------------------------------------------------------------------------
    def is_known(self, failure):
        return failure.bucket in self.known

    def handle(self, failure, case):
        """For enumerated (non-Hypothesis) cases.  Returns True if a violation was recorded."""
        if failure is None:
            return False
        if self.is_known(failure):
            self.stats.known_hits[failure.bucket] = self.stats.known_hits.get(failure.bucket, 0) + 1
            return False
        # keep only the first violation per bucket (root cause), smallest case wins
        for v in self.stats.violations:
            if v["bucket"] == failure.bucket:
                if len(json.dumps(jenc(case))) < len(json.dumps(v["case"])):
                    v.update(detail=failure.detail, case=jenc(case))
                return True
        self.stats.violations.append(dict(bucket=failure.bucket, detail=failure.detail, case=jenc(case),
                                          campaign=self.campaign))
        return True

    # -- Hypothesis driver ---------------------------------------------------------------
    def search(self, strategy, oracle, max_examples, name=None, shrink=True, seed_salt=0):
        """Generated-input search: draw `case` from `strategy`, run `oracle(case)`; an unknown
        Failure is shrunk by Hypothesis and recorded with its minimal case.

        The oracle is responsible for calling ctx.record(...)."""
        name = name or self.campaign
        last = {}
        ctx = self
        phases = [Phase.generate, Phase.shrink] if shrink else [Phase.generate]
        seedval = (self.seed * 1000003 + self.shard * 7919 + seed_salt * 104729 + stable_hash(name) % 1000) % (2 ** 63)

        # collect-then-continue: a bucket already reported in this run is not raised again, so the
        # search carries on behind it (Hypothesis stops at the first failure otherwise).
        reported = set()

        def body(case):
            last["current"] = case
            arm_watchdog()
            t_case = time.time()
            try:
                f = guarded(oracle, case, ctx.prop)
            finally:
                disarm_watchdog()
                dt = time.time() - t_case
                if dt > 2.0:
                    slow = ctx.stats.notes.setdefault("slow cases (>2s) in " + name, [])
                    if len(slow) < 5:
                        slow.append("%.1fs %s" % (dt, short(case, 300)))
            if f is None:
                return
            if ctx.is_known(f):
                ctx.stats.known_hits[f.bucket] = ctx.stats.known_hits.get(f.bucket, 0) + 1
                return
            if f.bucket in reported:
                return
            last["case"], last["failure"] = case, f
            raise PropertyViolation(f)

        rounds = 0
        remaining = max_examples
        while remaining > 0 and rounds < 4:
            rounds += 1
            last.clear()

            @hypothesis.seed(seedval + rounds)
            @settings(max_examples=remaining, database=None, deadline=None, derandomize=False,
                      report_multiple_bugs=False, suppress_health_check=list(HealthCheck),
                      phases=phases, print_blob=False, verbosity=Verbosity.quiet)
            @given(strategy)
            def t(case):
                body(case)

            before = self.stats.evaluations
            try:
                t()
                break
            except PropertyViolation:
                f = last["failure"]
                reported.add(f.bucket)
                self.stats.violations.append(dict(bucket=f.bucket, detail=f.detail, case=jenc(last["case"]),
                                                  campaign=name))
            except hypothesis.errors.Flaky as e:  # includes FlakyFailure
                if "failure" in last:
                    f = last["failure"]
                    reported.add(f.bucket)
                    self.stats.violations.append(dict(bucket=f.bucket, detail="(flaky) " + f.detail,
                                                      case=jenc(last["case"]), campaign=name))
                else:
                    self.stats.harness_errors.append("Flaky in %s: %s" % (name, e))
                    break
            except hypothesis.errors.Unsatisfiable as e:
                self.stats.harness_errors.append("Unsatisfiable in %s: %s" % (name, e))
                break
            except CaseTimeout:
                self.stats.harness_errors.append("a case in %s ran longer than %ds (inconclusive, not a violation): %s" % (
                    name, CASE_TIMEOUT_S, short(last.get("current"), 600)))
                break
            used = max(1, self.stats.evaluations - before)
            remaining -= used

    def check_case(self, case, oracle):
        """Enumeration driver: run oracle on one explicit case."""
        arm_watchdog()
        try:
            f = guarded(oracle, case, self.prop)
        finally:
            disarm_watchdog()
        return self.handle(f, case)


# ---------------------------------------------------------------------------------------------
# helper strategies
# ---------------------------------------------------------------------------------------------
def boundary_ints(lo, hi):
    """Integers in [lo, hi] biased to boundaries and powers of two."""
    specials = {lo, hi, 0, 1, -1, lo + 1, hi - 1, 127, 128, 255, 256, 0x7fff, 0x8000, 0xffff, 0x10000}
    for k in (7, 8, 14, 15, 16, 21, 24, 31, 32, 63, 64, 127, 128):
        for d in (-1, 0, 1):
            specials.add((1 << k) + d)
            specials.add(-(1 << k) + d)
    specials = sorted(v for v in specials if lo <= v <= hi)
    return st.one_of(st.sampled_from(specials), st.integers(lo, hi))
