"""Independent reference semantics R for spec trees (never imports construct).

    ref_parse(spec, data, kw=None, start=0)   -> (value, end_position)      raises Reject
    ref_build(spec, value, kw=None)           -> bytes                      raises Reject
    ref_sizeof(spec, kw=None)                 -> int | None (None = SizeofError expected)

Written from the wire-format definitions and the documented scope rules (docs/meta.rst); its own bugs show up
as disagreement on the unchanged tree and are fixed here, never allow-listed.  `Reject.path` lists the named
members enclosing the failing construct (innermost last) for C18.
"""
import bz2
import gzip
import lzma
import sys
import zlib

from pbt import exprs as X
from pbt import ieee
from pbt.grammar import ENC_UNIT, SCOPED, buildnone, discards, enum_table, is_expr, fixed_size

NATIVE_LITTLE = sys.byteorder == "little"


class Reject(Exception):
    def __init__(self, reason):
        super().__init__(reason)
        self.reason = reason
        self.path = ()


class Explicit(Reject):
    """Error field: escapes Select/Optional/GreedyRange/Peek"""


class Stop(Exception):
    """StopIf fired"""


class ForeignError(Exception):
    """the documented behaviour here is a non-ConstructError (KeyError for a missing key etc.); case is out of domain"""


class RS:
    """reference stream: a region [pos, end) of `data`; `base` is the absolute offset of data[0]"""

    def __init__(self, data, pos=0, end=None, base=0):
        self.data = data
        self.pos = pos
        self.end = len(data) if end is None else end
        self.base = base

    def read(self, n):
        if n < 0:
            raise Reject("negative-length")
        if self.pos + n > self.end:
            raise Reject("eof")
        d = self.data[self.pos:self.pos + n]
        self.pos += n
        return d

    def read_all(self):
        d = self.data[self.pos:self.end]
        self.pos = self.end
        return d

    def region(self, n):
        if n < 0:
            raise Reject("negative-length")
        if self.pos + n > self.end:
            raise Reject("eof")
        r = RS(self.data, self.pos, self.pos + n, self.base)
        self.pos += n
        return r

    def tell(self):
        return self.base + self.pos

    def at_end(self):
        return self.pos >= self.end


# ---------------------------------------------------------------------------------------------
# scopes (documented layout: `_` one level out, `_params` call keywords, `_root` outermost struct,
# `_index` current repetition, exactly one of _parsing/_building/_sizing)
# ---------------------------------------------------------------------------------------------
def top_scope(kw, mode):
    sc = dict(kw or {})
    sc["_parsing"] = mode == "parse"
    sc["_building"] = mode == "build"
    sc["_sizing"] = mode == "sizeof"
    sc["_params"] = sc
    return sc


def nested_scope(parent):
    sc = {"_": parent, "_params": parent["_params"], "_parsing": parent["_parsing"], "_building": parent["_building"],
          "_sizing": parent["_sizing"], "_index": parent.get("_index")}
    sc["_root"] = parent.get("_root", sc)
    return sc


def evaluate(e, sc, obj=None):
    """expression parameter: constant or AST; missing keys are a foreign error (documented KeyError)"""
    if not is_expr(e):
        return e
    try:
        return X.evaluate(e, sc, obj)
    except (KeyError, IndexError, TypeError, AttributeError) as ex:
        raise ForeignError("expression %s: %r" % (X.show(e), ex))


# ---------------------------------------------------------------------------------------------
# primitive codecs
# ---------------------------------------------------------------------------------------------
def int_decode(data, signed, little):
    if little:
        data = data[::-1]
    v = 0
    for b in data:
        v = (v << 8) | b
    if signed and data and data[0] & 0x80:
        v -= 1 << (8 * len(data))
    return v


def int_encode(v, n, signed, little):
    if not isinstance(v, int) or isinstance(v, bool):
        raise Reject("not-an-integer")
    lo, hi = (-(1 << (8 * n - 1)), (1 << (8 * n - 1)) - 1) if signed else (0, (1 << (8 * n)) - 1)
    if not lo <= v <= hi:
        raise Reject("out-of-range")
    v &= (1 << (8 * n)) - 1
    out = bytes((v >> (8 * (n - 1 - i))) & 0xff for i in range(n))
    return out[::-1] if little else out


def is_little(endian):
    return endian == "l" or (endian == "n" and NATIVE_LITTLE)


def varint_encode(v):
    if not isinstance(v, int) or isinstance(v, bool):
        raise Reject("not-an-integer")
    if v < 0:
        raise Reject("negative-varint")
    out = bytearray()
    while True:
        g = v & 0x7f
        v >>= 7
        if v:
            out.append(g | 0x80)
        else:
            out.append(g)
            return bytes(out)


def varint_decode(st):
    v, shift = 0, 0
    while True:
        b = st.read(1)[0]
        v |= (b & 0x7f) << shift
        shift += 7
        if not b & 0x80:
            return v


def bits_of(data):
    return bytes((b >> (7 - i)) & 1 for b in data for i in range(8))


def bytes_of(bits):
    if len(bits) % 8:
        raise Reject("bit-count-not-multiple-of-8")
    out = bytearray()
    for i in range(0, len(bits), 8):
        v = 0
        for b in bits[i:i + 8]:
            if b not in (0, 1):
                raise ForeignError("non-bit value in bit stream")
            v = (v << 1) | b
        out.append(v)
    return bytes(out)


def str_encode(s, enc):
    if not isinstance(s, str):
        raise Reject("not-a-string")
    if s == "":
        return b""
    try:
        return s.encode(enc)
    except Exception:
        raise Reject("unencodable")


def str_decode(b, enc):
    try:
        return b.decode(enc)
    except Exception:
        raise Reject("undecodable")


def strip_units(data, pad):
    """remove a trailing partial pad unit, then trailing whole pad units"""
    u = len(pad)
    if u == 1:
        end = len(data)
        while end > 0 and data[end - 1:end] == pad:
            end -= 1
        return data[:end]
    end = len(data)
    tail = end % u
    if tail and data[end - tail:end] == pad[:tail]:
        end -= tail
    while end - u >= 0 and data[end - u:end] == pad:
        end -= u
    return data[:end]


CODECS = {"zlib": zlib, "gzip": gzip, "bzip2": bz2, "lzma": lzma}


# ---------------------------------------------------------------------------------------------
# parse
# ---------------------------------------------------------------------------------------------
def rp(spec, st, sc):
    k = spec[0]
    if k == "int":
        return int_decode(st.read(spec[1]), spec[2], is_little(spec[3]))
    if k == "float":
        n = spec[1]
        bits = int_decode(st.read(n), False, is_little(spec[2]))
        return ieee.decode(bits, n)
    if k == "varint":
        return varint_decode(st)
    if k == "zigzag":
        v = varint_decode(st)
        return (v >> 1) if not v & 1 else -((v >> 1) + 1)
    if k == "bint":
        n = evaluate(spec[1], sc)
        if not isinstance(n, int):
            raise ForeignError("non-integer length")
        if n <= 0:
            raise Reject("non-positive-length")
        return int_decode(st.read(n), spec[2], bool(evaluate(spec[3], sc)))
    if k == "bytes":
        return st.read(_len(spec[1], sc))
    if k == "gbytes":
        return st.read_all()
    if k == "pstr":
        n = evaluate(spec[1], sc)
        if n < 0:
            raise Reject("negative-length")
        data = st.read(n)
        return str_decode(strip_units(data, bytes(ENC_UNIT[spec[2]])), spec[2])
    if k == "pascal":
        n = rp(spec[1], st, sc)
        return str_decode(st.read(_nonneg(n)), spec[2])
    if k == "cstr":
        u = ENC_UNIT[spec[1]]
        out = bytearray()
        while True:
            c = st.read(u)
            if c == bytes(u):
                break
            out += c
        return str_decode(bytes(out), spec[1])
    if k == "gstr":
        return str_decode(st.read_all(), spec[1])
    if k == "flag":
        return st.read(1) != b"\x00"
    if k == "enum":
        v = rp(spec[1], st, sc)
        found = v
        for label, val in enum_table(spec):
            if val == v:
                found = label       # (aliases: the last label declared for a value is the one reported)
        return found
    if k == "flagsenum":
        v = rp(spec[1], st, sc)
        return {label: (v & mask) == mask for label, mask in spec[2]}
    if k == "mapping":
        v = rp(spec[1], st, sc)
        for obj, val in spec[2]:
            if val == v and type(val) is type(v):
                return obj
        raise Reject("unmapped-value")
    if k == "const":
        v = st.read(len(spec[1])) if spec[2] is None else rp(spec[2], st, sc)
        if v != spec[1]:
            raise Reject("const-mismatch")
        return v
    if k == "computed":
        return evaluate(spec[1], sc)
    if k == "pass":
        return None
    if k == "padding":
        n = evaluate(spec[1], sc)
        if n < 0:
            raise Reject("negative-length")
        st.read(n)
        return None
    if k == "terminated":
        if not st.at_end():
            raise Reject("not-terminated")
        return None
    if k == "error":
        raise Explicit("explicit-error")
    if k == "check":
        if not evaluate(spec[1], sc):
            raise Reject("check-failed")
        return None
    if k == "stopif":
        if evaluate(spec[1], sc):
            raise Stop()
        return None
    if k == "index":
        return sc.get("_index")
    if k == "tell":
        return st.tell()
    if k in ("oneof", "noneof"):
        v = rp(spec[1], st, sc)
        if (v in spec[2]) != (k == "oneof"):
            raise Reject("validation")
        return v
    if k == "exprsym":
        return rp(spec[1], st, sc) ^ spec[2]
    if k == "expradd":
        return rp(spec[1], st, sc) + spec[2]
    if k == "exprvalid":
        v = rp(spec[1], st, sc)
        if not v < spec[2]:
            raise Reject("validation")
        return v
    if k == "bittail":
        return st.read_all()
    if k in ("bits", "bit", "nibble", "octet"):
        w, signed, swapped = _bitsparams(spec, sc)
        if w <= 0:
            raise Reject("non-positive-width")
        bits = st.read(w)
        if swapped:
            if w % 8:
                raise Reject("swapped-width-not-multiple-of-8")
            bits = b"".join(bits[i:i + 8] for i in range(w - 8, -1, -8))
        v = 0
        for b in bits:
            v = (v << 1) | b
        if signed and bits[0]:
            v -= 1 << w
        return v
    if k in ("struct", "bitstruct", "lazystruct"):
        if k == "bitstruct":
            return _bitwise_parse(["struct", spec[1]], st, sc)
        s2 = nested_scope(sc)
        out = {}
        for name, sub in spec[1]:
            try:
                v = _member(rp, name, sub, st, s2)
            except Stop:
                break
            if name:
                out[name] = v
                s2[name] = v
        return out
    if k == "alignedstruct":
        return rp(["struct", [[n, ["aligned", spec[1], s, b"\x00"]] for n, s in spec[2]]], st, sc)
    if k == "union":
        s2 = nested_scope(sc)
        out = {}
        start = st.pos
        ends = {}
        for i, (name, sub) in enumerate(spec[2]):
            st.pos = start
            v = _member(rp, name, sub, st, s2)
            if name:
                out[name] = v
                s2[name] = v
                ends[name] = st.pos
            ends[i] = st.pos
        st.pos = start
        pf = evaluate(spec[1], s2)
        if pf is not None:
            if pf not in ends:
                raise ForeignError("Union parsefrom names no member")
            st.pos = ends[pf]
        return out
    if k == "seq":
        s2 = nested_scope(sc)
        out = []
        for name, sub in spec[1]:
            try:
                v = _member(rp, name, sub, st, s2)
            except Stop:
                break
            out.append(v)
            if name:
                s2[name] = v
        return out
    if k == "fseq":
        s2 = nested_scope(sc)
        final = None
        for name, sub in spec[2]:
            v = _member(rp, name, sub, st, s2)
            if name:
                s2[name] = v
            if name == spec[1]:
                final = v
        return final
    if k in ("array", "lazyarray"):
        n = evaluate(spec[1], sc)
        if n < 0:
            raise Reject("negative-count")
        out = []
        for i in range(n):
            sc["_index"] = i
            out.append(rp(spec[2], st, sc))
        return [] if discards(spec) else out
    if k == "grange":
        out = []
        i = 0
        while True:
            sc["_index"] = i
            save = st.pos
            try:
                v = rp(spec[1], st, sc)
            except Explicit:
                raise
            except Reject:
                st.pos = save
                return [] if discards(spec) else out
            if st.pos == save and st.at_end():
                raise ForeignError("zero-width element: infinite list")
            out.append(v)
            i += 1
            if i > 100000:
                raise ForeignError("runaway repetition")
    if k == "runtil":
        out = []
        i = 0
        while True:
            sc["_index"] = i
            v = rp(spec[2], st, sc)
            out.append(v)
            if evaluate(spec[1], sc, v):
                return [] if discards(spec) else out
            i += 1
            if i > 100000:
                raise ForeignError("runaway repetition")
    if k == "parray":
        # the documented expansion is FocusedSeq("items", "count"/Rebuild(countfield, len_(this.items)), "items"/subcon[this.count])
        s2 = nested_scope(sc)
        n = _member(rp, "count", spec[1], st, s2)
        if n < 0:
            e = Reject("negative-count")
            e.path = ("items",)
            raise e
        out = []
        for i in range(n):
            s2["_index"] = i
            out.append(_member(rp, "items", spec[2], st, s2))
        return out
    if k == "select":
        for sub in spec[1]:
            save = st.pos
            try:
                return rp(sub, st, sc)
            except Explicit:
                raise
            except (Reject, ForeignError):
                st.pos = save
        raise Reject("no-alternative")
    if k == "optional":
        save = st.pos
        try:
            return rp(spec[1], st, sc)
        except Explicit:
            raise
        except (Reject, ForeignError):
            st.pos = save
            return None
    if k == "if":
        return rp(spec[2], st, sc) if evaluate(spec[1], sc) else None
    if k == "ite":
        return rp(spec[2] if evaluate(spec[1], sc) else spec[3], st, sc)
    if k == "switch":
        sub = _switch(spec, sc)
        return None if sub is None else rp(sub, st, sc)
    if k in ("rebuild", "default", "hex", "hexdump", "docs", "lazybound"):
        return rp(spec[1], st, sc)
    if k == "prefixed":
        n = rp(spec[1], st, sc)
        if spec[3]:
            n -= _need_fixed(spec[1])
        r = st.region(_nonneg(n))
        return rp(spec[2], r, sc)
    if k == "fixedsized":
        n = evaluate(spec[1], sc)
        if n < 0:
            raise Reject("negative-length")
        r = st.region(n)
        return rp(spec[2], r, sc)
    if k == "padded":
        n = evaluate(spec[1], sc)
        if n < 0:
            raise Reject("negative-length")
        p0 = st.pos
        v = rp(spec[2], st, sc)
        pad = n - (st.pos - p0)
        if pad < 0:
            raise Reject("padded-overflow")
        st.read(pad)
        return v
    if k == "aligned":
        m = evaluate(spec[1], sc)
        if m < 2:
            raise Reject("modulus-too-small")
        p0 = st.pos
        v = rp(spec[2], st, sc)
        st.read(-(st.pos - p0) % m)
        return v
    if k == "nullterm":
        _, sub, term, include, consume, require = spec
        u = len(term)
        if u < 1:
            raise Reject("empty-terminator")
        start = st.pos
        cur = start
        found = None
        while True:
            if cur + u > st.end:
                if require:
                    raise Reject("eof")
                # the partial unit is consumed from the stream but is not part of the region
                st.pos = st.end
                region_end = cur
                break
            if st.data[cur:cur + u] == term:
                found = cur
                region_end = cur + u if include else cur
                st.pos = cur if not consume else cur + u
                break
            cur += u
        r = RS(st.data, start, region_end, st.base)
        return rp(sub, r, sc)
    if k == "offsettedend":
        # everything up to `endoffset` (<= 0) bytes before the end of the enclosing stream or region
        endoff = evaluate(spec[1], sc)
        n = (st.end + endoff) - st.pos
        return rp(spec[2], st.region(n), sc)
    if k == "nullstrip":
        start = st.pos
        data = strip_units(st.read_all(), spec[2])
        if len(spec[2]) < 1:
            raise Reject("empty-pad")
        r = RS(st.data, start, start + len(data), st.base)
        return rp(spec[1], r, sc)
    if k == "bitwise":
        return _bitwise_parse(spec[1], st, sc)
    if k == "bytewise":
        # inside a bit-level region: the inner construct sees re-assembled bytes
        f = fixed_size(spec[1])
        if f is not None:
            inner = RS(bytes_of(st.read(f * 8)))
            return rp(spec[1], inner, sc)
        rest = st.data[st.pos:st.end]
        usable = len(rest) - len(rest) % 8
        inner = RS(bytes_of(rest[:usable]))
        v = rp(spec[1], inner, sc)
        st.pos += inner.pos * 8
        return v
    if k in ("byteswapped", "bitsswapped"):
        f = fixed_size(spec[1])
        if f is None:
            if k == "byteswapped":
                raise ForeignError("ByteSwapped needs a sized subcon")
            rest = st.data[st.pos:st.end]
            inner = RS(bytes(int("{:08b}".format(b)[::-1], 2) for b in rest))
            v = rp(spec[1], inner, sc)
            st.pos += inner.pos
            return v
        data = st.read(f)
        data = data[::-1] if k == "byteswapped" else bytes(int("{:08b}".format(b)[::-1], 2) for b in data)
        return rp(spec[1], RS(data), sc)
    if k == "xor":
        key = evaluate(spec[1], sc)
        start = st.pos
        data = st.read_all()
        data = _xor(data, key)
        return rp(spec[2], RS(data, 0, None, st.base + start), sc)
    if k == "rol":
        amount, group = evaluate(spec[1], sc), evaluate(spec[2], sc)
        if group < 1:
            raise Reject("group-too-small")
        data = st.read_all()
        if len(data) % group:
            raise Reject("length-not-multiple-of-group")
        return rp(spec[3], RS(_rot(data, amount, group, True)), sc)
    if k == "pointer":
        off = evaluate(spec[1], sc)
        save = st.pos
        target = off - st.base if off >= 0 else st.end + off
        if target < 0 or target > st.end:
            raise Reject("eof")
        st.pos = target
        try:
            return rp(spec[2], st, sc)
        finally:
            st.pos = save
    if k == "compressed":
        data = st.read_all()
        try:
            data = CODECS[spec[2]].decompress(data)
        except Exception as e:
            raise ForeignError("decompress: %r" % e)
        # Tunnel re-enters the public parse(): a fresh top-level context whose keywords are the old context
        return rp(spec[1], RS(data), top_scope({k2: v2 for k2, v2 in sc.items()}, "parse"))
    raise ValueError("refmodel.rp: unknown kind %r" % k)


TRACE = None      # when set to a list, every named member parsed is recorded in document order as
_PATH = []        # [path tuple, start (absolute stream units), end, value, kind]


def _member(fn, name, sub, st, sc):
    entry = None
    if TRACE is not None and name:
        _PATH.append(name)
        entry = [tuple(_PATH), st.tell(), None, None, sub[0]]
        TRACE.append(entry)
    try:
        v = fn(sub, st, sc)
        if entry is not None:
            entry[2], entry[3] = st.tell(), v
        return v
    except Reject as e:
        if name:
            e.path = (name,) + e.path
        raise
    finally:
        if entry is not None:
            _PATH.pop()


def _len(e, sc):
    n = evaluate(e, sc)
    if n < 0:
        raise Reject("negative-length")
    return n


def _nonneg(n):
    if not isinstance(n, int):
        raise ForeignError("non-integer length")
    if n < 0:
        raise Reject("negative-length")
    return n


def _need_fixed(spec):
    f = fixed_size(spec)
    if f is None:
        raise Reject("sizeof-unavailable")
    return f


def _bitsparams(spec, sc):
    k = spec[0]
    if k == "bit":
        return 1, False, False
    if k == "nibble":
        return 4, False, False
    if k == "octet":
        return 8, False, False
    return evaluate(spec[1], sc), spec[2], spec[3]


def _switch(spec, sc):
    """cases is a dict: Python dict lookup semantics; missing key -> default (None = Pass)"""
    key = evaluate(spec[1], sc)
    try:
        return {kk: sub for kk, sub in spec[2]}.get(key, spec[3])
    except TypeError:
        raise ForeignError("unhashable switch key")


def _bitwise_parse(sub, st, sc):
    """bytes -> bits; the inner construct consumes bits; the outer stream advances by whole bytes"""
    f = fixed_size(sub, bit=True)
    if f is not None and f % 8 == 0:
        inner = RS(bits_of(st.read(f // 8)))
        return rp(sub, inner, sc)
    rest = st.data[st.pos:st.end]
    inner = RS(bits_of(rest))
    v = rp(sub, inner, sc)
    if inner.pos % 8:
        raise ForeignError("bit-level region does not end on a byte boundary")
    st.pos += inner.pos // 8
    return v


def _xor(data, key):
    if not isinstance(key, (int, bytes)) or isinstance(key, bool):
        raise Reject("bad-xor-key")
    if isinstance(key, int):
        if not 0 <= key <= 255:
            raise ForeignError("xor key out of byte range")
        key = bytes([key])
    if len(key) == 0:
        return data
    return bytes(b ^ key[i % len(key)] for i, b in enumerate(data))


def _rot(data, amount, group, left):
    bits = 8 * group
    a = amount % bits
    if not left:
        a = (bits - a) % bits
    out = bytearray()
    for i in range(0, len(data), group):
        n = int.from_bytes(data[i:i + group], "big")
        if a:
            n = ((n << a) | (n >> (bits - a))) & ((1 << bits) - 1)
        out += n.to_bytes(group, "big")
    return bytes(out)


# ---------------------------------------------------------------------------------------------
# build: returns (bytes, value that lands in the scope)
# ---------------------------------------------------------------------------------------------
def rb(spec, v, sc):
    k = spec[0]
    if k == "int":
        return int_encode(v, spec[1], spec[2], is_little(spec[3])), v
    if k == "float":
        if isinstance(v, bool) or not isinstance(v, (int, float)):
            raise Reject("not-a-number")
        try:
            bits = ieee.encode(v, spec[1])
        except ieee.Overflow:
            raise Reject("float-overflow")
        except OverflowError:
            raise Reject("float-overflow")
        return int_encode(bits, spec[1], False, is_little(spec[2])), v
    if k == "varint":
        return varint_encode(v), v
    if k == "zigzag":
        if not isinstance(v, int) or isinstance(v, bool):
            raise Reject("not-an-integer")
        return varint_encode(2 * v if v >= 0 else -2 * v - 1), v
    if k == "bint":
        if not isinstance(v, int) or isinstance(v, bool):
            raise Reject("not-an-integer") if not isinstance(v, bool) else ForeignError("bool given to an integer field")
        n = evaluate(spec[1], sc)
        if not isinstance(n, int):
            raise ForeignError("non-integer length")
        if n <= 0:
            raise Reject("non-positive-length")
        return int_encode(v, n, spec[2], bool(evaluate(spec[3], sc))), v
    if k == "bytes":
        n = evaluate(spec[1], sc)
        if isinstance(v, int):
            # documented convenience: an integer is written big-endian, unsigned, in the field's width
            if n <= 0:
                raise Reject("non-positive-width")      # (an integer has no encoding in zero bytes)
            if not 0 <= int(v) < (1 << (8 * n)):
                raise Reject("out-of-range")
            data = int(v).to_bytes(n, "big")
            return data, data
        if not isinstance(v, (bytes, bytearray)):
            raise ForeignError("Bytes built from a non-bytes object")
        if n < 0:
            raise Reject("negative-length")
        if len(v) != n:
            raise Reject("wrong-length")
        return bytes(v), bytes(v)
    if k == "gbytes":
        if not isinstance(v, (bytes, bytearray)):
            raise ForeignError("GreedyBytes built from a non-bytes object")
        return bytes(v), bytes(v)
    if k == "pstr":
        n = evaluate(spec[1], sc)
        data = str_encode(v, spec[2])
        if n < 0:
            raise Reject("negative-length")
        if len(data) > n:
            raise Reject("string-too-long")
        return data + bytes(n - len(data)), v
    if k == "pascal":
        data = str_encode(v, spec[2])
        pre, _ = rb(spec[1], len(data), sc)
        return pre + data, v
    if k == "cstr":
        return str_encode(v, spec[1]) + bytes(ENC_UNIT[spec[1]]), v
    if k == "gstr":
        return str_encode(v, spec[1]), v
    if k == "flag":
        return (b"\x01" if v else b"\x00"), v
    if k == "enum":
        if isinstance(v, int) and not isinstance(v, bool):
            iv = v
        elif isinstance(v, bool):
            iv = v
        else:
            for label, val in enum_table(spec):
                if isinstance(v, str) and label == v:
                    iv = val
                    break
            else:
                raise Reject("unknown-label")
        return rb(spec[1], iv, sc)[0], v
    if k == "flagsenum":
        table = dict((l, m) for l, m in spec[2])
        if isinstance(v, bool):
            iv = v
        elif isinstance(v, int):
            iv = v
        elif isinstance(v, str):
            iv = 0
            for name in v.split("|"):
                name = name.strip()
                if name:
                    if name not in table:
                        raise Reject("unknown-label")
                    iv |= table[name]
        elif isinstance(v, dict):
            iv = 0
            for name, on in v.items():
                if not isinstance(name, str):
                    raise ForeignError("non-string flag name")
                if name.startswith("_"):
                    continue
                if on:
                    if name not in table:
                        raise Reject("unknown-label")
                    iv |= table[name]
        else:
            raise Reject("unknown-object")
        return rb(spec[1], iv, sc)[0], v
    if k == "mapping":
        for obj, val in spec[2]:
            try:
                same = obj == v and type(obj) is type(v)
            except Exception:
                same = False
            if same:
                return rb(spec[1], val, sc)[0], v
        raise Reject("unmapped-object")
    if k == "const":
        if v is not None and not (v == spec[1]):
            raise Reject("const-mismatch")
        if spec[2] is None:
            return spec[1], spec[1]
        return rb(spec[2], spec[1], sc)
    if k == "computed":
        return b"", evaluate(spec[1], sc)
    if k == "pass":
        return b"", v
    if k == "padding":
        n = evaluate(spec[1], sc)
        if n < 0:
            raise Reject("negative-length")
        return spec[2] * n, v
    if k == "terminated":
        return b"", v
    if k == "error":
        raise Explicit("explicit-error")
    if k == "check":
        if not evaluate(spec[1], sc):
            raise Reject("check-failed")
        return b"", None
    if k == "stopif":
        if evaluate(spec[1], sc):
            raise Stop()
        return b"", None
    if k == "index":
        return b"", sc.get("_index")
    if k in ("oneof", "noneof"):
        if (v in spec[2]) != (k == "oneof"):
            raise Reject("validation")
        return rb(spec[1], v, sc)[0], v
    if k in ("exprsym", "expradd", "exprvalid"):
        if not isinstance(v, int):
            raise ForeignError("expression adapter applied to a non-integer (a raw Python error, not the library's)")
        if k == "exprvalid":
            if not v < spec[2]:
                raise Reject("validation")
            return rb(spec[1], v, sc)[0], v
        return rb(spec[1], (v ^ spec[2]) if k == "exprsym" else (v - spec[2]), sc)[0], v
    if k == "bittail":
        if not isinstance(v, (bytes, bytearray)) or any(b > 1 for b in v):
            raise ForeignError("bit-level GreedyBytes built from something that is not a string of 0/1 bytes")
        return bytes(v), bytes(v)
    if k in ("bits", "bit", "nibble", "octet"):
        w, signed, swapped = _bitsparams(spec, sc)
        if not isinstance(v, int) or isinstance(v, bool):
            raise Reject("not-an-integer")
        if w <= 0:
            raise Reject("non-positive-width")
        lo, hi = (-(1 << (w - 1)), (1 << (w - 1)) - 1) if signed else (0, (1 << w) - 1)
        if not lo <= v <= hi:
            raise Reject("out-of-range")
        u = v & ((1 << w) - 1)
        bits = bytes((u >> (w - 1 - i)) & 1 for i in range(w))
        if swapped:
            if w % 8:
                raise Reject("swapped-width-not-multiple-of-8")
            bits = b"".join(bits[i:i + 8] for i in range(w - 8, -1, -8))
        return bits, v
    if k in ("struct", "lazystruct"):
        if v is None:
            v = {}
        if not isinstance(v, dict):
            raise ForeignError("Struct built from a non-dict")
        s2 = nested_scope(sc)
        for kk, vv in v.items():
            s2[kk] = vv
        out = bytearray()
        for name, sub in spec[1]:
            if buildnone(sub):
                sv = v.get(name) if name is not None else None
            else:
                if name not in v:
                    raise ForeignError("KeyError: missing member %r" % (name,))
                sv = v[name]
            if name:
                s2[name] = sv
            try:
                data, ret = _member_b(name, sub, sv, s2)
            except Stop:
                break
            out += data
            if name:
                s2[name] = ret
        return bytes(out), s2
    if k == "union":
        s2 = nested_scope(sc)
        for kk, vv in (v or {}).items():
            s2[kk] = vv
        for name, sub in spec[2]:
            if buildnone(sub):
                sv = v.get(name)
            elif name in v:
                sv = v[name]
            else:
                continue
            if name:
                s2[name] = sv
            data, ret = _member_b(name, sub, sv, s2)
            return data, {name: ret}
        raise Reject("union-nothing-to-build")
    if k == "bitstruct":
        return _bitwise_build(["struct", spec[1]], v, sc)
    if k == "alignedstruct":
        return rb(["struct", [[n, ["aligned", spec[1], s, b"\x00"]] for n, s in spec[2]]], v, sc)
    if k == "seq":
        if v is None:
            v = [None] * len(spec[1])
        s2 = nested_scope(sc)
        out = bytearray()
        rets = []
        it = iter(v)
        for name, sub in spec[1]:
            try:
                sv = next(it)
            except StopIteration:
                raise ForeignError("Sequence built from too few items")
            if name:
                s2[name] = sv
            try:
                data, ret = _member_b(name, sub, sv, s2)
            except Stop:
                break
            out += data
            rets.append(ret)
            if name:
                s2[name] = ret
        return bytes(out), rets
    if k == "fseq":
        s2 = nested_scope(sc)
        s2[spec[1]] = v
        out = bytearray()
        final = None
        for name, sub in spec[2]:
            data, ret = _member_b(name, sub, v if name == spec[1] else None, s2)
            out += data
            if name:
                s2[name] = ret
            if name == spec[1]:
                final = ret
        return bytes(out), final
    if k in ("array", "lazyarray"):
        n = evaluate(spec[1], sc)
        if n < 0:
            raise Reject("negative-count")
        try:
            ln = len(v)
        except TypeError:
            raise ForeignError("Array built from an unsized object")
        if ln != n:
            raise Reject("wrong-count")
        out = bytearray()
        rets = []
        for i, e in enumerate(v):
            sc["_index"] = i
            data, ret = rb(spec[2], e, sc)
            out += data
            rets.append(ret)
        return bytes(out), rets
    if k in ("grange", "runtil", "parray") and not isinstance(v, (list, tuple)):
        raise ForeignError("repetition built from a non-list")
    if k == "grange":
        out = bytearray()
        rets = []
        for i, e in enumerate(v):
            sc["_index"] = i
            data, ret = rb(spec[1], e, sc)
            out += data
            rets.append(ret)
        return bytes(out), rets
    if k == "runtil":
        out = bytearray()
        rets = []
        for i, e in enumerate(v):
            sc["_index"] = i
            data, ret = rb(spec[2], e, sc)
            out += data
            rets.append(ret)
            if evaluate(spec[1], sc, e):
                return bytes(out), rets
        raise Reject("no-element-matched")
    if k == "parray":
        s2 = nested_scope(sc)
        s2["items"] = v
        pre, cnt = _member_b("count", spec[1], len(v), s2)
        s2["count"] = cnt
        out = bytearray(pre)
        rets = []
        for i, e in enumerate(v):
            s2["_index"] = i
            data, ret = _member_b("items", spec[2], e, s2)
            out += data
            rets.append(ret)
        return bytes(out), rets
    if k == "select":
        for sub in spec[1]:
            try:
                # alternatives are built in isolation (own top-level call), as documented for Select
                data, _ = rb(sub, v, top_scope({kk: vv for kk, vv in sc.items()}, "build"))
                return data, v
            except Explicit:
                raise
            except (Reject, ForeignError, Stop):
                continue
        raise Reject("no-alternative")
    if k == "optional":
        try:
            data, _ = rb(spec[1], v, top_scope({kk: vv for kk, vv in sc.items()}, "build"))
            return data, v
        except Explicit:
            raise
        except (Reject, ForeignError, Stop):
            return b"", v
    if k == "if":
        if evaluate(spec[1], sc):
            return rb(spec[2], v, sc)
        return b"", v
    if k == "ite":
        return rb(spec[2] if evaluate(spec[1], sc) else spec[3], v, sc)
    if k == "switch":
        sub = _switch(spec, sc)
        return (b"", v) if sub is None else rb(sub, v, sc)
    if k == "rebuild":
        return rb(spec[1], evaluate(spec[2], sc), sc)
    if k == "default":
        return rb(spec[1], evaluate(spec[2], sc) if v is None else v, sc)
    if k in ("hex", "hexdump"):
        return rb(spec[1], v, sc)[0], v
    if k in ("docs", "lazybound"):
        return rb(spec[1], v, sc)
    if k == "prefixed":
        data, ret = rb(spec[2], v, sc)
        n = len(data)
        if spec[3]:
            n += _need_fixed(spec[1])
        pre, _ = rb(spec[1], n, sc)
        return pre + data, ret
    if k == "fixedsized":
        n = evaluate(spec[1], sc)
        if n < 0:
            raise Reject("negative-length")
        data, ret = rb(spec[2], v, sc)
        if len(data) > n:
            raise Reject("fixedsized-overflow")
        return data + bytes(n - len(data)), ret
    if k == "padded":
        n = evaluate(spec[1], sc)
        if n < 0:
            raise Reject("negative-length")
        data, ret = rb(spec[2], v, sc)
        if len(data) > n:
            raise Reject("padded-overflow")
        return data + spec[3] * (n - len(data)), ret
    if k == "aligned":
        m = evaluate(spec[1], sc)
        if m < 2:
            raise Reject("modulus-too-small")
        data, ret = rb(spec[2], v, sc)
        return data + spec[3] * (-len(data) % m), ret
    if k == "nullterm":
        data, ret = rb(spec[1], v, sc)
        return data + spec[2], ret
    if k == "offsettedend":
        return rb(spec[2], v, sc)
    if k == "nullstrip":
        return rb(spec[1], v, sc)
    if k == "bitwise":
        return _bitwise_build(spec[1], v, sc)
    if k == "bytewise":
        data, ret = rb(spec[1], v, sc)
        return bits_of(data), ret
    if k in ("byteswapped", "bitsswapped"):
        data, ret = rb(spec[1], v, sc)
        f = fixed_size(spec[1])
        if f is not None and len(data) != f:
            raise Reject("transformed-wrong-amount")
        if k == "byteswapped":
            return data[::-1], ret
        return bytes(int("{:08b}".format(b)[::-1], 2) for b in data), ret
    if k == "xor":
        key = evaluate(spec[1], sc)
        if not isinstance(key, (int, bytes)) or isinstance(key, bool):
            raise Reject("bad-xor-key")
        data, ret = rb(spec[2], v, sc)
        return _xor(data, key), ret
    if k == "rol":
        amount, group = evaluate(spec[1], sc), evaluate(spec[2], sc)
        if group < 1:
            raise Reject("group-too-small")
        data, ret = rb(spec[3], v, sc)
        if len(data) % group:
            raise Reject("length-not-multiple-of-group")
        return _rot(data, amount, group, False), ret
    if k == "pointer":
        return b"", v       # (the pointed-to bytes live elsewhere; the reference encodings do not patch them in)
    if k == "compressed":
        data, ret = rb(spec[1], v, sc)
        lib = CODECS[spec[2]]
        if spec[3] is None or spec[2] == "lzma":
            return lib.compress(data), v
        return lib.compress(data, spec[3]), v
    raise ValueError("refmodel.rb: unknown kind %r" % k)


def _member_b(name, sub, v, sc):
    try:
        return rb(sub, v, sc)
    except Reject as e:
        if name:
            e.path = (name,) + e.path
        raise


def _bitwise_build(sub, v, sc):
    bits, ret = rb(sub, v, sc)
    f = fixed_size(sub, bit=True)
    if len(bits) % 8:
        if f is not None:
            raise Reject("bit-count-not-multiple-of-8")
        raise ForeignError("bit-level region does not end on a byte boundary")
    return bytes_of(bits), ret


# ---------------------------------------------------------------------------------------------
# public API
# ---------------------------------------------------------------------------------------------
def ref_trace(spec, data, kw=None, start=0):
    """parse and return (value, end, trace of named members)"""
    global TRACE
    TRACE = []
    del _PATH[:]
    try:
        v, end = ref_parse(spec, data, kw, start)
        return v, end, TRACE
    finally:
        TRACE = None


def ref_parse(spec, data, kw=None, start=0):
    st = RS(data, start)
    sc = top_scope(kw, "parse")
    try:
        v = rp(spec, st, sc)
    except Stop:
        v = None  # a bare StopIf at top level: documented StopFieldError escapes; callers do not generate this
        raise ForeignError("StopIf outside Struct/Sequence")
    return v, st.pos


def ref_build(spec, value, kw=None):
    sc = top_scope(kw, "build")
    try:
        data, _ = rb(spec, value, sc)
    except Stop:
        raise ForeignError("StopIf outside Struct/Sequence")
    return data


def normalise(spec, value, kw=None):
    """what parse must return for the bytes built from `value`"""
    data = ref_build(spec, value, kw)
    v, _ = ref_parse(spec, data, kw)
    return v
