"""Hypothesis strategies: spec trees (sound by construction) and values for a spec; value comparison.

Soundness rules implemented by construction (DESIGN.md §2.2): greedy nodes only in tail position of a region;
repetition elements have min size >= 1; bit regions are multiples of 8 bits; length/count fields can hold what the
value strategy produces; label tables injective, flag masks disjoint; Select alternatives unambiguous; context
references only to earlier integer members with small values (or Rebuild-derived ones) or keyword parameters.
"""
import math

from hypothesis import strategies as st

from pbt import exprs as X
from pbt import ieee
from pbt.grammar import (ENC_UNIT, FF_INT, INT_ALIAS_WIDTHS, SCOPED, buildnone, children, enum_table, fixed_size, is_expr, walk)
from pbt.refmodel import nested_scope, top_scope

ENCODINGS = ["ascii", "utf8", "utf_16_le", "utf_16_be", "utf_32_le", "utf_32_be"]
BOM_ENCODINGS = ["utf16", "utf32"]
ALPHABET = {
    "ascii": "abcXYZ019 _-~\x01\x7f",
    "other": "abZ0 \x01\x7fé߿€￿\U00010000😀Ā",
}
LABELS = ["A", "B", "C", "dd", "e5", "F_", "gg", "H"]


class Free:
    """marker for a member whose value is derived while building (Rebuild)"""

    def __init__(self, hi=5):
        self.hi = hi


# ---------------------------------------------------------------------------------------------
# feature sets ("fragments")
# ---------------------------------------------------------------------------------------------
CORE = frozenset("""int float varint zigzag bytes gbytes pstr pascal cstr gstr flag enum flagsenum mapping const computed
 pass padding struct seq fseq array grange parray if ite switch rebuild default prefixed fixedsized padded aligned
 nullterm nullstrip check""".split())
SEQUENTIAL = CORE | frozenset("""docs expr bint bittail lamlen lazybound offsettedend runtil select optional stopif bitwise bitstruct bytewise byteswapped bitsswapped xor rol
 compressed hex hexdump oneof noneof alignedstruct bomstr index terminated""".split())


class GenCtx:
    def __init__(self, frag, depth, tail, ints=(), params=None, bit=False, ctxfree=False, names=None):
        self.frag = frag
        self.depth = depth
        self.tail = tail          # may this node read to the end of its stream?
        self.ints = list(ints)    # [(levels_up, name, kind)] usable integer references
        self.params = params or {}
        self.bit = bit
        self.ctxfree = ctxfree    # no context references (inside Select alternatives)
        self.names = names if names is not None else [0]

    def child(self, **kw):
        g = GenCtx(self.frag, self.depth - 1, self.tail, self.ints, self.params, self.bit, self.ctxfree, self.names)
        g.scope_depth = self.scope_depth
        g.rootrefs = self.rootrefs
        g.ntflags = self.ntflags
        for k, v in kw.items():
            setattr(g, k, v)
        return g

    def fresh(self, prefix="f"):
        self.names[0] += 1
        return "%s%d" % (prefix, self.names[0])

    parent_name = None      # name under which the struct being generated is nested (for same-name nesting)
    used_names = None
    scope_depth = 0         # number of Struct scopes entered (1 = members of the outermost Struct)
    ntflags = False         # vary NullTerminated(include=, consume=, require=): parse-side semantics only (build always appends the
                            # terminator, so these are not round-trip or canonical forms: used by C03's model comparison only)
    rootrefs = False        # spell references to members of the outermost Struct as this._root.x now and then
                            # (only sound when the generated spec is used as the outermost construct)

    def has(self, k):
        return k in self.frag


def ref_ast(levels, name, style="attr"):
    return ["this", ["_"] * levels + [name], style]


def gref(draw, g, levels, name, style="attr"):
    """reference to a registered member; now and then spelt through _root when it lives in the outermost Struct"""
    if g.rootrefs and g.scope_depth and g.scope_depth - levels == 1 and draw(st.integers(0, 3)) == 0:
        return ["this", ["_root", name], style]
    return ref_ast(levels, name, style)


# ---------------------------------------------------------------------------------------------
# spec generation
# ---------------------------------------------------------------------------------------------
def gen_int(draw, small=False, unsigned=False, maxbytes=16):
    via = draw(st.sampled_from(["alias", "alias", "ff", "bi", "short"]))
    if via == "alias":
        n = draw(st.sampled_from([w for w in INT_ALIAS_WIDTHS if w <= maxbytes]))
    elif via == "ff":
        n = draw(st.sampled_from([w for w in (1, 2, 4, 8) if w <= maxbytes]))
    elif via == "short":
        n = draw(st.sampled_from([w for w in (1, 2, 4, 8) if w <= maxbytes]))
    else:
        n = draw(st.integers(1, min(16, maxbytes)))
    signed = False if (unsigned or via == "short") else draw(st.booleans())
    endian = "b" if via == "short" else draw(st.sampled_from(["b", "l", "n"]))
    return ["int", n, signed, endian, via]


def gen_lenfield(draw, varint_ok=True):
    """integer field able to hold small non-negative lengths"""
    if varint_ok and draw(st.integers(0, 4)) == 0:
        return ["varint"]
    return gen_int(draw, unsigned=draw(st.booleans()), maxbytes=4)


def gen_float(draw):
    via = draw(st.sampled_from(["alias", "ff", "short"]))
    n = draw(st.sampled_from([2, 4, 8]))
    endian = "b" if via == "short" else draw(st.sampled_from(["b", "l", "n"]))
    return ["float", n, endian, via]


def gen_len_expr(draw, g, allow_const=True):
    """non-negative length/count: constant, reference to an earlier small integer, or keyword parameter"""
    opts = []
    if allow_const:
        opts += ["const", "const"]
    if g.ints and not g.ctxfree:
        opts += ["ref", "ref", "ref"]
    if g.params and not g.ctxfree:
        opts += ["param"]
    if not opts:
        opts = ["const"]
    o = draw(st.sampled_from(opts))
    if o == "const":
        return draw(st.integers(0, 5))
    if o == "param":
        name = draw(st.sampled_from(sorted(g.params)))
        base = ["this", ["_params", name], draw(st.sampled_from(["attr", "item"]))]
    else:
        levels, name, _ = draw(st.sampled_from(g.ints))
        base = gref(draw, g, levels, name, draw(st.sampled_from(["attr", "item"])))
    form = draw(st.sampled_from(["id", "id", "id", "+k", "*k", "k+", "-k"]))
    if form == "+k":
        return ["bin", "+", base, ["const", draw(st.integers(0, 2))]]
    if form == "k+":
        return ["bin", "+", ["const", draw(st.integers(0, 2))], base]
    if form == "*k":
        return ["bin", "*", base, ["const", draw(st.integers(0, 2))]]
    if form == "-k":
        return ["bin", "-", base, ["const", draw(st.integers(0, 1))]]
    return base


def gen_leaf(draw, g):
    """non-greedy leaf with min size >= 1 unless noted"""
    opts = ["int", "int", "int", "float", "varint", "zigzag", "bytes", "pstr", "pascal", "cstr", "flag", "enum", "flagsenum",
            "mapping", "const", "oneof", "noneof", "hexint", "expr"]
    opts = [o for o in opts if g.has(o) or (o == "hexint" and g.has("hex"))]
    o = draw(st.sampled_from(opts))
    if o == "int":
        return gen_int(draw)
    if o == "float":
        return gen_float(draw)
    if o in ("varint", "zigzag", "flag"):
        return [o]
    if o == "bytes":
        return ["bytes", gen_len_expr(draw, g)]
    if o == "pstr":
        enc = draw(st.sampled_from(ENCODINGS + (BOM_ENCODINGS if g.has("bomstr") else [])))
        return ["pstr", gen_len_expr(draw, g) if draw(st.booleans()) else draw(st.integers(0, 12)), enc]
    if o == "pascal":
        return ["pascal", gen_lenfield(draw), draw(st.sampled_from(ENCODINGS))]
    if o == "cstr":
        return ["cstr", draw(st.sampled_from(ENCODINGS))]
    if o in ("enum", "flagsenum", "mapping", "oneof", "noneof"):
        return gen_mapped(draw, g, o)
    if o == "const":
        return gen_const(draw)
    if o == "hexint":
        return [draw(st.sampled_from(["hex", "hexdump"])), draw(st.sampled_from([gen_int(draw), ["bytes", draw(st.integers(0, 4))]]))]
    if o == "expr":
        s = gen_int(draw, unsigned=True, maxbytes=2)
        hi = (1 << (8 * s[1])) - 1
        kind = draw(st.sampled_from(["exprsym", "expradd", "exprvalid"]))
        return [kind, s, draw(st.integers(1, hi)) if kind != "expradd" else draw(st.integers(-300, 300))]
    raise AssertionError(o)


def gen_const(draw):
    if draw(st.booleans()):
        return ["const", draw(st.binary(min_size=1, max_size=4)), None]
    sub = gen_int(draw, maxbytes=4)
    lo, hi = int_range(sub)
    return ["const", draw(st.integers(max(lo, -300), min(hi, 300))), sub]


def int_range(spec):
    n, signed = spec[1], spec[2]
    return (-(1 << (8 * n - 1)), (1 << (8 * n - 1)) - 1) if signed else (0, (1 << (8 * n)) - 1)


def gen_mapped(draw, g, kind):
    sub = draw(st.sampled_from(["int1", "int", "varint"])) if kind != "flagsenum" else draw(st.sampled_from(["int1", "int"]))
    if sub == "int1":
        s = ["int", 1, False, "b", draw(st.sampled_from(["alias", "short", "ff", "bi"]))]
    elif sub == "int":
        s = gen_int(draw, unsigned=True, maxbytes=4)
    else:
        s = ["varint"]
    hi = 255 if s[0] == "int" and s[1] == 1 else (65535 if s[0] == "int" else 1 << 70)
    if kind == "flagsenum":
        nbits = 8 * s[1]
        positions = draw(st.lists(st.integers(0, nbits - 1), min_size=1, max_size=4, unique=True))
        masks = [1 << p for p in positions]
        # composite labels (RW = R|W), arbitrary multi-bit masks and, rarely, a zero mask: decode is "all bits of the mask set"
        for _ in range(draw(st.integers(0, 2))):
            extra = draw(st.sampled_from(["union", "any", "zero"]))
            if extra == "union" and len(masks) >= 2:
                m = 0
                for x in draw(st.lists(st.sampled_from(masks), min_size=2, max_size=3, unique=True)):
                    m |= x
            elif extra == "zero":
                m = 0 if draw(st.integers(0, 3)) == 0 else draw(st.integers(1, (1 << nbits) - 1))
            else:
                m = draw(st.integers(1, (1 << nbits) - 1))
            if m not in masks:
                masks.append(m)
        labels = LABELS[:len(masks)]
        # enum.IntFlag iteration yields only canonical single-bit members on Python >= 3.11, so the enum-class spelling is
        # used for single-bit tables only (composite members of an IntFlag class are not merged by FlagsEnum)
        canonical = all(m and not (m & (m - 1)) for m in masks)
        via = draw(st.sampled_from(["kw", "intenum"])) if canonical else "kw"
        return ["flagsenum", s, [[l, m] for l, m in zip(labels, masks)], via]
    vals = draw(st.lists(st.integers(0, min(hi, 300)), min_size=1, max_size=4, unique=True))
    if kind == "enum":
        table = [[l, v] for l, v in zip(LABELS, vals)]
        if len(table) < len(LABELS) and draw(st.integers(0, 3)) == 0:
            # aliases: another label for an already declared value, placed anywhere after it
            for _ in range(draw(st.integers(1, min(2, len(LABELS) - len(table))))):
                table.insert(draw(st.integers(1, len(table))), [LABELS[len(table)], draw(st.sampled_from(vals))])
        return ["enum", s, table, draw(st.sampled_from(["kw", "intenum"]))]
    if kind == "mapping":
        objs = draw(st.sampled_from([["x", "y", "z", "w"], [10, 20, 30, 40], [b"p", b"q", b"r", b"s"], [True, None, "t", 0]]))
        return ["mapping", s, [[o, v] for o, v in zip(objs, vals)]]
    return [kind, s, vals]


def gen_region_inner(draw, g):
    """construct for the inside of a delimited region: may be greedy"""
    return gen_spec(draw, g.child(tail=True))


def gen_tail_leaf(draw, g):
    opts = [o for o in ["gbytes", "gbytes", "gstr", "grange", "optional", "nullstrip", "xor", "rol", "compressed", "terminated", "bittail"]
            if g.has(o) and not (o == "bittail" and g.bit)]
    if not opts:
        return None
    o = draw(st.sampled_from(opts))
    if o == "bittail":
        return gen_bitstruct(draw, g, tail=True)
    if o == "gbytes":
        return ["gbytes"]
    if o == "gstr":
        return ["gstr", draw(st.sampled_from(ENCODINGS))]
    if o == "grange":
        return ["grange", gen_element(draw, g.child(tail=False))]
    if o == "optional":
        return ["optional", draw(st.sampled_from([gen_int(draw), ["cstr", "utf8"], ["pascal", ["int", 1, False, "b", "alias"], "utf8"]]))]
    if o == "nullstrip":
        return ["nullstrip", ["gbytes"], draw(st.sampled_from([b"\x00", b"\xff", b"\x00\x00", b"ab", b"ab", b"\x20\x00", b"xyz"]))]
    if o == "xor":
        key = draw(st.one_of(st.integers(0, 255), st.binary(min_size=1, max_size=3)))
        return ["xor", key, gen_spec(draw, g.child(tail=True, depth=min(g.depth - 1, 1)))]
    if o == "rol":
        group = draw(st.sampled_from([1, 1, 2, 3, 4, 5]))
        if group == 1:
            return ["rol", draw(st.integers(-9, 17)), 1, gen_spec(draw, g.child(tail=True, depth=min(g.depth - 1, 1)))]
        # the rotated data must be whole groups: a fixed array of group*k bytes or greedy bytes drawn in whole groups
        amount = draw(st.one_of(st.integers(-40, 40), st.sampled_from([8, 16, 24, -8, -16, 32])))
        inner = draw(st.sampled_from([["gbytes"], ["array", group * draw(st.integers(0, 2)), ["int", 1, False, "b", "alias"]],
                                      ["array", draw(st.integers(0, 2)), ["int", group, False, draw(st.sampled_from(["b", "l"])), "bi"]]]))
        return ["rol", amount, group, inner]
    if o == "compressed":
        return ["compressed", ["gbytes"], draw(st.sampled_from(["zlib", "bzip2", "lzma"])), draw(st.sampled_from([None, 1, 9]))]
    if o == "terminated":
        return ["struct", [[g.fresh(), gen_int(draw)], [None, ["terminated"]]]]
    raise AssertionError(o)


def gen_element(draw, g):
    """repetition element: min size >= 1, no context-free restriction"""
    o = draw(st.sampled_from(["int", "int", "leaf", "struct"] if g.depth > 0 else ["int", "leaf"]))
    if o == "int":
        return gen_int(draw, maxbytes=4)
    if o == "leaf":
        s = gen_leaf(draw, g)
        if min_size(s) >= 1:
            return s
        return gen_int(draw, maxbytes=2)
    spec = gen_struct(draw, g.child(tail=False), min1=True)
    if g.has("index") and draw(st.integers(0, 3)) == 0:
        # the element records its own position in the repetition (Index reads _index from the enclosing scopes)
        spec[1].insert(draw(st.integers(0, len(spec[1]))), [g.fresh("i"), ["index"]])
    return spec


def min_size(spec):
    k = spec[0]
    if k in ("int", "float"):
        return spec[1]
    if k in ("varint", "zigzag", "flag", "cstr"):
        return 1
    if k == "pascal":
        return 1
    if k == "const":
        return len(spec[1]) if spec[2] is None else min_size(spec[2])
    if k in ("enum", "flagsenum", "mapping", "oneof", "noneof", "hex", "hexdump", "exprsym", "expradd", "exprvalid", "lazybound"):
        return min_size(spec[1])
    if k in ("bytes", "pstr", "bint"):
        return spec[1] if isinstance(spec[1], int) else 0
    if k == "struct":
        return sum(min_size(s) for _, s in spec[1] if s[0] != "stopif") if not any(s[0] == "stopif" for _, s in spec[1]) else 0
    return 0


def gen_struct(draw, g, min1=False):
    """Struct from member groups with internal dependencies"""
    ngroups = draw(st.integers(1, 3 if g.depth > 0 else 2))
    members = []
    inner = GenCtx(g.frag, g.depth, False, [(l + 1, n, k) for l, n, k in g.ints], g.params, g.bit, g.ctxfree, g.names)
    inner.parent_name = g.parent_name
    inner.used_names = set()
    inner.scope_depth = g.scope_depth + 1
    inner.rootrefs = g.rootrefs
    inner.ntflags = g.ntflags
    for gi in range(ngroups):
        last = gi == ngroups - 1
        inner.tail = g.tail and last
        members += gen_group(draw, inner)
    if min1 and sum(min_size(s) for _, s in members) < 1:
        members.insert(0, [g.fresh(), gen_int(draw, maxbytes=2)])
    style = draw(st.sampled_from(["ctor", "ctor", "ctor", "ctor", "plus", "kw"]))     # Struct(...), a + b + c, Struct(a=..., b=...)
    return ["struct", members, style]


def gen_group(draw, g):
    """one to three members; may register integer fields usable by later members"""
    opts = ["plain", "plain", "plain", "anon", "lenpair", "rebuildpair", "condpair", "computed", "default", "checked", "nested", "derivedpair"]
    if g.has("stopif"):
        opts.append("stopif")
    if g.params and g.has("switch") and not g.ctxfree:
        opts += ["paramcond", "paramcond"]
    if g.tail and g.has("offsettedend"):
        opts += ["footer"]
    if g.ctxfree:
        opts = ["plain", "plain", "anon", "default", "nested"]
    if g.depth <= 0:
        opts = [o for o in opts if o != "nested"]
    o = draw(st.sampled_from(opts))
    if o == "plain":
        name = g.fresh()
        if g.parent_name and g.used_names is not None and g.parent_name not in g.used_names and draw(st.integers(0, 3)) == 0:
            name = g.parent_name        # a member may carry the same name as the member that encloses it ("data" -> "data")
            g.used_names.add(name)
        spec = gen_spec(draw, g.child())
        if g.has("docs") and draw(st.integers(0, 7)) == 0:
            reg = spec[0] == "int" and int_range(spec)[1] >= 5 and not g.ctxfree
            spec = ["docs", spec, "some documentation", draw(st.sampled_from(["inner", "outer"]))]
            if reg:
                g.ints.append((0, name, "int"))
            return [[name, spec]]
        if spec[0] == "int" and int_range(spec)[1] >= 5 and not g.ctxfree:
            g.ints.append((0, name, "int"))
        if g.has("lazybound") and draw(st.integers(0, 19)) == 0:
            spec = ["lazybound", spec]
        return [[name, spec]]
    if o == "anon":
        c = draw(st.sampled_from(["const", "padding", "pass"]))
        if c == "const":
            return [[None, gen_const(draw)]]
        if c == "padding" and g.has("padding"):
            return [[None, ["padding", draw(st.integers(0, 3)), draw(st.sampled_from([b"\x00", b"\x00", b"\xff", b"x"]))]]]
        return [[None, ["pass"]]]
    if o == "lenpair":
        n = g.fresh("n")
        lf = gen_lenfield(draw, varint_ok=True)
        g.ints.append((0, n, "int"))
        d = g.fresh("d")
        return [[n, lf], [d, gen_dependent(draw, g, gref(draw, g, 0, n, draw(st.sampled_from(["attr", "item"]))))]]
    if o == "footer":
        # a greedy body that stops short of a fixed-size footer at the end of the enclosing stream or region
        k = draw(st.integers(0, 3))
        body = draw(st.sampled_from([["gbytes"], ["grange", ["int", 1, False, "b", "alias"]], ["gstr", "utf8"]]))
        if body[0] == "gstr" and not g.has("gstr"):
            body = ["gbytes"]
        return [[g.fresh("b"), ["offsettedend", -k, body]], [g.fresh("z"), ["bytes", k]]]
    if o == "derivedpair":
        # a member that build derives by itself (Default/Const/Computed given None) and a later member sized by it: the parent
        # must hand the BUILT value on, not the supplied None
        n, d = g.fresh("n"), g.fresh("d")
        k = draw(st.integers(0, 4))
        form = draw(st.sampled_from([f for f in ("default", "const", "computed") if g.has(f)] or ["default"]))
        lf = gen_int(draw, unsigned=True, maxbytes=2)
        derived = {"default": ["default", lf, k], "const": ["const", k, lf], "computed": ["computed", ["const", k]]}[form]
        g.ints.append((0, n, "int"))
        return [[n, derived], [d, gen_dependent(draw, g, gref(draw, g, 0, n, draw(st.sampled_from(["attr", "item"]))))]]
    if o == "rebuildpair" and g.has("rebuild"):
        n, d = g.fresh("n"), g.fresh("d")
        lf = gen_lenfield(draw)
        dep = draw(st.sampled_from(["bytes", "array", "gbytes_tail"]))
        if dep == "gbytes_tail" and g.tail:
            return [[n, ["rebuild", lf, _maybe_lambda(draw, ["fn", "len", gref(draw, g, 0, d)])]], [d, ["gbytes"]]]
        if dep == "array":
            return [[n, ["rebuild", lf, _maybe_lambda(draw, ["fn", "len", gref(draw, g, 0, d)])]], [d, ["array", gref(draw, g, 0, n), gen_element(draw, g.child(tail=False))]]]
        return [[n, ["rebuild", lf, _maybe_lambda(draw, ["fn", "len", gref(draw, g, 0, d)])]], [d, ["bytes", gref(draw, g, 0, n)]]]
    if o == "condpair":
        t, v = g.fresh("t"), g.fresh("v")
        tk = draw(st.sampled_from(["flag", "int", "enum"]))
        body = lambda: gen_spec(draw, g.child(tail=False))  # noqa
        if tk == "flag" and g.has("if"):
            form = draw(st.sampled_from(["if", "ite", "ifnot"]))
            cond = gref(draw, g, 0, t)
            if form == "if":
                return [[t, ["flag"]], [v, ["if", cond, body()]]]
            if form == "ifnot":
                return [[t, ["flag"]], [v, ["if", ["un", "~", cond], body()]]]
            return [[t, ["flag"]], [v, ["ite", cond, body(), body()]]]
        if tk == "enum" and g.has("enum") and g.has("switch"):
            table = [["A", 1], ["B", 2], ["C", 7]]
            tspec = ["enum", ["int", 1, False, "b", "alias"], table, "kw"]
            form = draw(st.sampled_from(["switch", "ite"]))
            if form == "ite":
                return [[t, tspec], [v, ["ite", ["bin", "==", gref(draw, g, 0, t), ["const", "A"]], body(), body()]]]
            cases = [[lab, body()] for lab, _ in table[:draw(st.integers(1, 3))]]
            return [[t, tspec], [v, ["switch", gref(draw, g, 0, t), cases, body() if draw(st.booleans()) else None]]]
        if g.has("switch"):
            tspec = gen_int(draw, unsigned=True, maxbytes=2)
            form = draw(st.sampled_from(["switch", "ite", "itecmp"]))
            if form == "switch":
                keys = draw(st.lists(st.integers(0, 5), min_size=1, max_size=3, unique=True))
                cases = [[kk, body()] for kk in keys]
                return [[t, tspec], [v, ["switch", gref(draw, g, 0, t), cases, body() if draw(st.booleans()) else None]]]
            op = draw(st.sampled_from(["==", "!=", "<", ">="])) if form == "itecmp" else "=="
            return [[t, tspec], [v, ["ite", ["bin", op, gref(draw, g, 0, t), ["const", draw(st.integers(0, 3))]], body(), body()]]]
        return [[t, ["flag"]]]
    if o == "paramcond":
        pname = draw(st.sampled_from(sorted(g.params)))
        pref = ["this", ["_params", pname], draw(st.sampled_from(["attr", "item"]))]
        body = lambda: gen_spec(draw, g.child(tail=False))  # noqa
        form = draw(st.sampled_from(["switch", "ite", "if", "itecmp"]))
        v = g.fresh("v")
        if form == "switch":
            keys = draw(st.lists(st.integers(0, 5), min_size=1, max_size=3, unique=True))
            return [[v, ["switch", pref, [[kk, body()] for kk in keys], body() if draw(st.booleans()) else None]]]
        if form == "if":
            return [[v, ["if", pref, body()]]]
        if form == "ite":
            return [[v, ["ite", pref, body(), body()]]]
        return [[v, ["ite", ["bin", draw(st.sampled_from(["==", "<", ">="])), pref, ["const", draw(st.integers(0, 5))]], body(), body()]]]
    if o == "computed" and g.has("computed"):
        if g.ints:
            l1, n1, _ = draw(st.sampled_from(g.ints))
            e = draw(st.sampled_from([
                gref(draw, g, l1, n1), ["bin", "*", gref(draw, g, l1, n1), ["const", 2]], ["bin", "+", ["const", 1], gref(draw, g, l1, n1)],
                ["bin", "-", ["const", 10], gref(draw, g, l1, n1)], ["bin", "==", gref(draw, g, l1, n1), ["const", 0]],
                ["un", "-", gref(draw, g, l1, n1)]]))
            return [[g.fresh("c"), ["computed", e]]]
        return [[g.fresh("c"), ["computed", ["const", draw(st.sampled_from([7, "k", b"\x00", None, True]))]]]]
    if o == "default" and g.has("default"):
        sub = gen_int(draw, maxbytes=4)
        lo, hi = int_range(sub)
        if g.params and not g.ctxfree and lo <= 0 and hi >= 5 and draw(st.integers(0, 3)) == 0:
            # the default itself may be a function of the context
            pk = draw(st.sampled_from(sorted(g.params)))
            return [[g.fresh("q"), ["default", sub, ["this", ["_params", pk], draw(st.sampled_from(["attr", "item"]))]]]]
        return [[g.fresh("q"), ["default", sub, draw(st.integers(max(lo, -100), min(hi, 100)))]]]
    if o == "checked" and g.has("check") and g.ints:
        l1, n1, _ = draw(st.sampled_from(g.ints))
        return [[None, ["check", ["bin", ">=", gref(draw, g, l1, n1), ["const", 0]]]]]
    if o == "stopif":
        t = g.fresh("s")
        return [[t, ["flag"]], [None, ["stopif", gref(draw, g, 0, t)]], [g.fresh(), gen_int(draw, maxbytes=2)]]
    if o == "nested" and g.depth > 0:
        name = g.fresh()
        kind = draw(st.sampled_from(["struct", "struct", "seq", "fseq"]))
        sub = gen_struct(draw, g.child(parent_name=name))
        if kind == "seq" and g.has("seq") and not any(s[0] == "rebuild" for _, s in sub[1]):
            # (a Sequence is built from a list, so Rebuild members cannot look ahead at later siblings)
            mem = [[nm if draw(st.booleans()) else (nm if _referenced(sub[1], nm) else None), s] for nm, s in sub[1]]
            mem = [[nm, s] for nm, s in mem if not (nm is None and s[0] in ("stopif",))]
            return [[name, ["seq", mem]]]
        if kind == "fseq" and g.has("fseq"):
            named = [nm for nm, s in sub[1] if nm and not buildnone(s) and s[0] not in ("stopif",)]
            ok = all(buildnone(s) or nm in named[:1] for nm, s in sub[1]) and not any(s[0] == "stopif" for _, s in sub[1])
            # a dropped member that steers the layout must be reconstructible from what is kept: a Default accepts any parsed
            # value but is rebuilt as its constant, so such a format could not re-encode everything it parses (ill-formed)
            ok = ok and not any(_unwrap_docs(s)[0] == "default" and nm and _referenced(sub[1], nm) for nm, s in sub[1])
            if named and ok:
                return [[name, ["fseq", named[0], sub[1]]]]
        return [[name, sub]]
    name = g.fresh()
    return [[name, gen_spec(draw, g.child())]]


def _unwrap_docs(s):
    while s[0] in ("docs", "lazybound"):
        s = s[1]
    return s


def _referenced(members, name):
    for _, s in members:
        for e, lvl in _all_exprs(s):
            if _mentions(e, lvl, name):
                return True
    return False


def _all_exprs(spec):
    from pbt.grammar import exprs_in
    return list(exprs_in(spec))


def _mentions(e, lvl, name):
    k = e[0]
    if k == "this":
        return e[1] == ["_"] * lvl + [name] or e[1] == ["_root", name]
    if k in ("const", "obj"):
        return False
    if k == "bin":
        return _mentions(e[2], lvl, name) or _mentions(e[3], lvl, name)
    return _mentions(e[2], lvl, name)


def _maybe_lambda(draw, e):
    """Rebuild accepts any callable of the context, not only expression objects"""
    return ["lam", "py", e] if draw(st.integers(0, 4)) == 0 else e


def gen_dependent(draw, g, lenref):
    """member whose size/count is given by an earlier integer member"""
    opts = ["bytes", "bytes", "array", "pstr", "fixedsized", "padded", "bytes+k", "bint"]
    opts = [o for o in opts if g.has(o.split("+")[0])]
    o = draw(st.sampled_from(opts))
    if o == "bytes":
        return ["bytes", lenref]
    if o == "bint":
        # width taken from the data (0 must be refused), byte order constant or taken from a keyword parameter
        swapped = draw(st.booleans())
        if g.params and not g.ctxfree and draw(st.booleans()):
            pk = draw(st.sampled_from(sorted(g.params)))
            swapped = ["bin", "&", ["this", ["_params", pk], "attr"], ["const", 1]]
        return ["bint", lenref, draw(st.booleans()), swapped]
    if o == "bytes+k":
        return ["bytes", ["bin", "+", lenref, ["const", draw(st.integers(0, 2))]]]
    if o == "array":
        return ["array", lenref, gen_element(draw, g.child(tail=False)), draw(st.sampled_from(["ctor", "getitem"]))]
    if o == "pstr":
        return ["pstr", lenref, draw(st.sampled_from(ENCODINGS))]
    if o == "fixedsized":
        return ["fixedsized", lenref, draw(st.sampled_from([["gbytes"], ["gstr", "utf8"], ["grange", ["int", 1, False, "b", "alias"]]]))]
    return ["padded", ["bin", "+", lenref, ["const", 10]], ["varint"], b"\x00"]


def gen_wrapper(draw, g):
    opts = [o for o in ["prefixed", "prefixed", "fixedsized", "padded", "aligned", "nullterm", "parray", "array", "runtil",
                        "select", "bitstruct", "byteswapped", "bitsswapped", "alignedstruct", "hexstruct"]
            if g.has(o) or (o == "hexstruct" and g.has("hex"))]
    o = draw(st.sampled_from(opts))
    if o == "prefixed":
        incl = draw(st.booleans())
        lf = gen_lenfield(draw, varint_ok=not incl)
        return ["prefixed", lf, gen_region_inner(draw, g), incl]
    if o == "fixedsized":
        inner = draw(st.sampled_from(["fixed", "gbytes", "gstr"]))
        if inner == "fixed":
            sub = gen_spec(draw, g.child(tail=False, depth=min(g.depth - 1, 1)))
            f = fixed_size(sub)
            if f is not None:
                return ["fixedsized", f + draw(st.integers(0, 3)), sub]
            return ["fixedsized", draw(st.integers(0, 8)), ["gbytes"]]
        if inner == "gstr":
            return ["fixedsized", draw(st.integers(0, 12)), ["nullstrip", ["gstr", "utf8"], b"\x00"]]
        return ["fixedsized", draw(st.integers(0, 8)), ["gbytes"]]
    if o == "padded":
        sub = gen_spec(draw, g.child(tail=False, depth=min(g.depth - 1, 1)))
        f = fixed_size(sub)
        pat = draw(st.sampled_from([b"\x00", b"\xff", b"p"]))
        if f is not None:
            return ["padded", f + draw(st.integers(0, 3)), sub, pat]
        return ["padded", draw(st.integers(10, 12)), ["varint"], pat]
    if o == "aligned":
        if (g.ints or g.params) and not g.ctxfree and draw(st.booleans()):
            m = gen_len_expr(draw, g, allow_const=False)     # modulus from the context: values below 2 must be rejected
            if draw(st.booleans()):
                m = ["bin", "+", m, ["const", 2]]
        else:
            m = draw(st.integers(2, 5))
        return ["aligned", m, gen_spec(draw, g.child(tail=False)), draw(st.sampled_from([b"\x00", b"\xee"]))]
    if o == "nullterm":
        term = draw(st.sampled_from([b"\x00", b"\x00\x00", b"\xff", b";", b"\r\n"]))
        if g.ntflags and draw(st.booleans()):
            return ["nullterm", ["gbytes"], term, draw(st.booleans()), draw(st.booleans()), draw(st.booleans())]
        return ["nullterm", ["gbytes"], term, False, True, True]
    if o == "parray":
        eg = g.child(tail=False)
        eg.ints = [(l + 1, n, k) for l, n, k in g.ints]     # the FocusedSeq behind PrefixedArray is one more context level
        if not g.scope_depth:
            eg.rootrefs = False     # PrefixedArray is a FocusedSeq: at the top it, not the element Struct, owns _root
        return ["parray", gen_lenfield(draw), gen_element(draw, eg)]
    if o == "array":
        return ["array", gen_len_expr(draw, g), gen_element(draw, g.child(tail=False)), draw(st.sampled_from(["ctor", "getitem"]))]
    if o == "runtil":
        pred = draw(st.sampled_from([["bin", "==", ["obj", []], ["const", 0]], ["bin", ">", ["obj", []], ["const", 100]],
                                     ["bin", "==", ["bin", "&", ["obj", []], ["const", 1]], ["const", 1]]]))
        return ["runtil", pred, ["int", 1, False, "b", draw(st.sampled_from(["alias", "bi"]))]]
    if o == "select":
        form = draw(st.sampled_from(["tagged", "consts"]))
        if form == "consts":
            vals = draw(st.lists(st.binary(min_size=2, max_size=2), min_size=2, max_size=3, unique=True))
            return ["select", [["const", v, None] for v in vals]]
        n = draw(st.integers(2, 3))
        alts = []
        for i in range(n):
            tag = bytes([65 + i])
            sub = gen_struct(draw, g.child(tail=False, ctxfree=True, ints=[], depth=min(g.depth - 1, 1)))
            # unique member names per alternative so that a dict built for alternative i cannot build alternative j<i
            members = [[None, ["const", tag, None]]] + [[("a%d_%s" % (i, nm)) if nm else None, s] for nm, s in sub[1]]
            if all(buildnone(s) for _, s in members):
                members.append(["a%d_k" % i, ["int", 1, False, "b", "alias"]])
            alts.append(["struct", members])
        return ["select", alts]
    if o == "bitstruct":
        return gen_bitstruct(draw, g)
    if o in ("byteswapped", "bitsswapped"):
        sub = gen_spec(draw, g.child(tail=False, depth=min(g.depth - 1, 1), ctxfree=True, ints=[]))
        if fixed_size(sub) is None and o == "bitsswapped" and draw(st.booleans()):
            # BitsSwapped over something that finds its own end: the byte-by-byte (streaming) implementation
            B1 = ["int", 1, False, "b", "alias"]
            return [o, draw(st.sampled_from([["varint"], ["cstr", "utf8"], ["pascal", B1, "utf8"], ["prefixed", B1, ["gbytes"], False],
                                             ["struct", [[g.fresh(), ["varint"]], [g.fresh(), gen_int(draw, maxbytes=2)]]]]))]
        if fixed_size(sub) == 0 and draw(st.booleans()):
            return [o, draw(st.sampled_from([["bytes", 0], ["struct", []], ["array", 0, ["int", 1, False, "b", "alias"]], ["pass"]]))]   # a transformed region of no bytes
        if fixed_size(sub) is None or fixed_size(sub) == 0:
            sub = gen_int(draw)
        return [o, sub]
    if o == "alignedstruct":
        def amember():
            m = draw(st.sampled_from([gen_int(draw, maxbytes=3), gen_int(draw, maxbytes=3), ["varint"], ["bytes", draw(st.integers(0, 3))], ["cstr", "ascii"]]))
            if g.has("docs") and draw(st.integers(0, 2)) == 0:
                m = ["docs", m, "some documentation", draw(st.sampled_from(["inner", "outer"]))]     # ("name" / field * "doc": a second naming layer)
            return m
        return ["alignedstruct", draw(st.integers(2, 4)), [[g.fresh(), amember()] for _ in range(draw(st.integers(1, 3)))]]
    if o == "hexstruct":
        return [draw(st.sampled_from(["hex", "hexdump"])), draw(st.sampled_from([gen_int(draw), ["bytes", draw(st.integers(0, 4))]]))]
    raise AssertionError(o)


def gen_bitstruct(draw, g, tail=False):
    n = draw(st.integers(1, 5))
    if not tail and draw(st.integers(0, 15)) == 0:
        n = 0       # a bit-level region of no bits at all (or of the keyword-sized pair only)
    members = []
    total = 0
    if g.params and not g.ctxfree and draw(st.booleans()):
        pname = draw(st.sampled_from(sorted(g.params)))
        pref = ["this", ["_params", pname], "attr"]
        # two fields whose widths depend on the keyword parameter and always add up to 8 bits (parameter is 0..5)
        members.append([g.fresh("b"), ["bits", ["bin", "+", pref, ["const", 1]], draw(st.booleans()), False]])
        members.append([g.fresh("b"), ["bits", ["bin", "-", ["const", 7], pref], False, False]])
    for i in range(n):
        o = draw(st.sampled_from(["bits", "bits", "bits", "flag", "padding", "alias", "bytewise", "array"]))
        if o == "bits":
            w = draw(st.integers(1, 24))
            swapped = draw(st.booleans()) if w % 8 == 0 else False
            members.append([g.fresh("b"), ["bits", w, draw(st.booleans()), swapped]])
            total += w
        elif o == "flag":
            members.append([g.fresh("b"), ["flag"]])
            total += 1
        elif o == "padding":
            w = draw(st.integers(1, 7))
            members.append([None, ["padding", w, b"\x00"]])
            total += w
        elif o == "alias":
            a = draw(st.sampled_from(["bit", "nibble", "octet"]))
            members.append([g.fresh("b"), [a]])
            total += {"bit": 1, "nibble": 4, "octet": 8}[a]
        elif o == "bytewise" and g.has("bytewise"):
            if g.params and not g.ctxfree and draw(st.integers(0, 2)) == 0:
                # an island whose byte length comes from a keyword parameter: whole bytes, so the region stays aligned
                pn = draw(st.sampled_from(sorted(g.params)))
                members.append([g.fresh("b"), ["bytewise", ["bytes", ["this", ["_params", pn], "attr"]]]])
                continue
            sub = draw(st.sampled_from([gen_int(draw, maxbytes=3), ["bytes", draw(st.integers(1, 3))]]))
            members.append([g.fresh("b"), ["bytewise", sub]])
            total += 8 * fixed_size(sub)
        elif o == "array":
            w, c = draw(st.integers(1, 6)), draw(st.integers(0, 4))
            members.append([g.fresh("b"), ["array", c, ["bits", w, False, False]]])
            total += w * c
    if tail or (g.tail and g.has("bittail") and draw(st.integers(0, 3)) == 0):
        # a streaming region: its last member takes every remaining bit (fields before it may end inside a byte)
        members.append([g.fresh("b"), ["bittail", -total % 8]])
    elif total % 8:
        members.append([None, ["padding", -total % 8, b"\x00"]])
    if draw(st.booleans()):
        return ["bitstruct", members]
    return ["bitwise", ["struct", members]]


def gen_spec(draw, g):
    if g.depth <= 0:
        o = "leaf"
    else:
        o = draw(st.sampled_from(["leaf", "leaf", "struct", "wrapper", "wrapper", "tail" if g.tail else "leaf"]))
    if g.tail and o == "leaf" and draw(st.integers(0, 3)) == 0:
        o = "tail"
    if o == "tail":
        s = gen_tail_leaf(draw, g)
        if s is not None:
            return s
        o = "leaf"
    if o == "leaf":
        return gen_leaf(draw, g)
    if o == "struct":
        return gen_struct(draw, g)
    return gen_wrapper(draw, g)


@st.composite
def spec_and_params(draw, frag=SEQUENTIAL, depth=3, tail=True, with_params=True, rootrefs=False, ntflags=False):
    params = {}
    if with_params and draw(st.booleans()):
        for name in draw(st.lists(st.sampled_from(["k", "m", "w"]), max_size=2, unique=True)):
            params[name] = draw(st.integers(0, 5))
    g = GenCtx(frag, depth, tail, [], params)
    g.rootrefs = rootrefs
    g.ntflags = ntflags
    o = draw(st.sampled_from(["struct", "struct", "any"]))
    spec = gen_struct(draw, g) if o == "struct" else gen_spec(draw, g)
    if g.has("lamlen") and draw(st.integers(0, 3)) == 0:
        # some parameters as hand-written lambdas with attribute access on the context (ctx._.n) instead of expression objects:
        # they compute the same, but a missing entry surfaces as AttributeError rather than KeyError
        from pbt.grammar import expr_param_indices
        for node in walk(spec):
            for i in expr_param_indices(node):
                if is_expr(node[i]) and node[i][0] not in ("const", "lam") and "obj" not in X.roots(node[i]) and draw(st.integers(0, 2)) == 0:
                    node[i] = ["lam", "attr", node[i]]
    return spec, params


# ---------------------------------------------------------------------------------------------
# value generation
# ---------------------------------------------------------------------------------------------
def biased_int(draw, lo, hi):
    pool = {lo, hi, 0, 1, -1, lo + 1, hi - 1, 127, 128, 255, 256, -128, -129, 0x7fff, 0x8000, 0xffff, 0x10000, (1 << 31) - 1, 1 << 31, (1 << 32) - 1, 1 << 32,
            (1 << 63) - 1, 1 << 63, (1 << 64) - 1, 1 << 64, -(1 << 31), -(1 << 31) - 1, -(1 << 63), -(1 << 63) - 1}
    pool = sorted(v for v in pool if lo <= v <= hi)
    if draw(st.integers(0, 2)) == 0:
        return draw(st.sampled_from(pool))
    return draw(st.integers(lo, hi))


def gen_string(draw, enc, limit=None):
    alpha = ALPHABET["ascii"] if enc == "ascii" else ALPHABET["other"]
    chars = draw(st.lists(st.sampled_from(alpha), max_size=6))
    s = "".join(chars)
    if draw(st.integers(0, 4)) == 0:
        s += draw(st.sampled_from([" ", "  ", "\t", "\n", "a "]))   # trailing/leading whitespace must survive
    if draw(st.integers(0, 9)) == 0:
        s = " " + s
    if limit is not None:
        while s and len(s.encode(enc)) > limit:
            s = s[:-1]
        if s == "" or len(s.encode(enc)) > limit:
            s = ""
    return s


class VP:
    """value-generation parameters"""
    def __init__(self, limit=None, avoid=frozenset(), unit=1, nostrip=None):
        self.limit, self.avoid, self.unit, self.nostrip = limit, avoid, unit, nostrip


def ev_len(e, sc, default_hi=5, draw=None):
    """evaluate a length expression on generated values; Free/failed -> None (free choice)"""
    if not is_expr(e):
        return e
    try:
        v = X.evaluate(e, sc)
    except Exception:
        return None
    if isinstance(v, Free) or not isinstance(v, int) or isinstance(v, bool):
        return None
    return v


def gen_value(draw, spec, sc, vp=None):
    """value in the spec's domain, generated alongside a model scope `sc` that mirrors build-time visibility"""
    vp = vp or VP()
    k = spec[0]
    V = gen_value
    if k == "int":
        lo, hi = int_range(spec)
        return biased_int(draw, lo, hi)
    if k == "float":
        n = spec[1]
        bits = draw(st.one_of(st.integers(0, (1 << (8 * n)) - 1), st.sampled_from(_float_specials(n))))
        return ieee.decode(bits, n)
    if k == "varint":
        return draw(st.one_of(st.sampled_from([0, 1, 127, 128, 16383, 16384, (1 << 21) - 1, 1 << 21, (1 << 64) + 5, 1 << 100]),
                              st.integers(0, 1 << 70)))
    if k == "zigzag":
        return draw(st.one_of(st.sampled_from([0, -1, 1, -64, 63, 64, -65, (1 << 64), -(1 << 64) - 1]), st.integers(-(1 << 66), 1 << 66)))
    if k == "bint":
        n = ev_len(spec[1], sc)
        if n is None or n <= 0 or n > 64:
            n = 1
        lo, hi = (-(1 << (8 * n - 1)), (1 << (8 * n - 1)) - 1) if spec[2] else (0, (1 << (8 * n)) - 1)
        return biased_int(draw, lo, hi)
    if k == "bytes":
        n = ev_len(spec[1], sc)
        if n is None:
            n = draw(st.integers(0, 5))
        if n < 0:
            n = 0
        if n > 70000:
            n = 70000       # (a length nobody can satisfy cheaply: the value is then simply rejected by build)
        return _gen_bytes(draw, n, n, vp)
    if k == "gbytes":
        hi = 8 if vp.limit is None else max(0, min(vp.limit, 8))
        if (vp.limit is None or vp.limit >= 300) and draw(st.integers(0, 15)) == 0:
            hi = 300   # lengths above 255: multi-byte prefixes, two-byte VarInts
            return _gen_bytes(draw, 256, hi, vp)
        return _gen_bytes(draw, 0, hi, vp)
    if k == "pstr":
        n = ev_len(spec[1], sc)
        if n is None:
            n = draw(st.integers(0, 8))
        return gen_string(draw, spec[2], limit=max(n, 0) - (2 if spec[2] == "utf16" else 4 if spec[2] == "utf32" else 0))
    if k in ("pascal", "cstr", "gstr"):
        enc = spec[2] if k == "pascal" else spec[1]
        limit = vp.limit
        if k == "pascal" and spec[1][0] == "int":
            cap = int_range(spec[1])[1]
            limit = cap if limit is None else min(limit, cap)
        return gen_string(draw, enc, limit=limit)
    if k == "flag":
        return draw(st.booleans())
    if k == "enum":
        table = enum_table(spec)
        form = draw(st.sampled_from(["label", "label", "int", "unmapped"]))
        if form == "label":
            return draw(st.sampled_from([l for l, _ in table]))
        if form == "int":
            return draw(st.sampled_from([v for _, v in table]))
        lo, hi = (0, 1 << 70) if spec[1][0] == "varint" else int_range(spec[1])
        return biased_int(draw, max(lo, 0), hi)
    if k == "flagsenum":
        labels = [l for l, _ in spec[2]]
        chosen = draw(st.lists(st.sampled_from(labels), unique=True, max_size=len(labels)))
        form = draw(st.sampled_from(["dict", "dict", "str", "int", "fulldict"]))
        table = dict((l, m) for l, m in spec[2])
        if form == "str":
            return draw(st.sampled_from(["|", " | "])).join(chosen)
        if form == "int":
            v = 0
            for l in chosen:
                v |= table[l]
            return v
        if form == "fulldict":
            return {l: (l in chosen) for l in labels}
        return {l: True for l in chosen}
    if k == "mapping":
        return draw(st.sampled_from([o for o, _ in spec[2]]))
    if k == "const":
        return draw(st.sampled_from([None, None, spec[1]]))
    if k in ("computed", "pass", "padding", "terminated", "check", "stopif", "index", "error", "tell", "peek"):
        return None
    if k == "pointer":
        return gen_value(draw, spec[2], sc)
    if k == "offsettedend":
        return V(draw, spec[2], sc, vp)
    if k == "oneof":
        return draw(st.sampled_from(spec[2]))
    if k in ("exprsym", "expradd", "exprvalid"):
        lo, hi = int_range(spec[1])
        if k == "expradd":
            return biased_int(draw, lo + spec[2], hi + spec[2])
        return biased_int(draw, lo, hi if k == "exprsym" else min(hi, spec[2] - 1))
    if k == "noneof":
        lo, hi = (0, 1 << 30) if spec[1][0] == "varint" else int_range(spec[1])
        for _ in range(8):
            v = biased_int(draw, lo, hi)
            if v not in spec[2]:
                return v
        return max(spec[2]) + 1
    if k == "bittail":
        # the remaining bits of a streaming bit-level region: spec[1] bits complete the last byte, then whole bytes
        n = spec[1] + 8 * draw(st.integers(0, 2))
        return bytes(draw(st.lists(st.integers(0, 1), min_size=n, max_size=n)))
    if k in ("bits", "bit", "nibble", "octet"):
        w = {"bit": 1, "nibble": 4, "octet": 8}.get(k) or ev_len(spec[1], sc) or 1
        signed = spec[2] if k == "bits" else False
        lo, hi = (-(1 << (w - 1)), (1 << (w - 1)) - 1) if signed else (0, (1 << w) - 1)
        return biased_int(draw, lo, hi)
    if k in ("struct", "bitstruct", "lazystruct", "alignedstruct"):
        members = spec[1] if k != "alignedstruct" else spec[2]
        return _gen_struct_value(draw, members, sc, vp)
    if k == "seq":
        d, s2 = _gen_members(draw, spec[1], sc, vp)
        return [d.get(("#", i)) for i in range(len(spec[1]))]
    if k == "fseq":
        d, s2 = _gen_members(draw, spec[2], sc, vp)
        for i, (name, sub) in enumerate(spec[2]):
            if name == spec[1]:
                return d.get(("#", i))
        return None
    if k in ("array", "lazyarray"):
        n = ev_len(spec[1], sc)
        if n is None:
            n = draw(st.integers(0, 4))
        return [V(draw, spec[2], sc) for _ in range(max(n, 0))]
    if k == "grange":
        n = draw(st.integers(0, 4))
        if fixed_size(spec[1]) in (1, 2) and draw(st.integers(0, 19)) == 0:
            n = draw(st.sampled_from([255, 256, 257, 300]))      # many repetitions now and then (counts past one byte)
        if vp.limit is not None:
            ms = max(1, min_size(spec[1]))
            f = fixed_size(spec[1])
            n = min(n, vp.limit // (f if f else max(ms, 8)))
        return [V(draw, spec[1], sc, VP(avoid=vp.avoid)) for _ in range(n)]
    if k == "runtil":
        pred = spec[1]
        n = draw(st.integers(0, 3))
        lo, hi = int_range(spec[2])
        no = [v for v in range(lo, hi + 1) if not X.evaluate(pred, sc, v)]
        yes = [v for v in range(lo, hi + 1) if X.evaluate(pred, sc, v)]
        return [draw(st.sampled_from(no)) for _ in range(n)] + [draw(st.sampled_from(yes))]
    if k == "parray":
        cap = 4
        if spec[1][0] == "int":
            cap = min(cap, int_range(spec[1])[1])
        n = draw(st.integers(0, cap))
        if fixed_size(spec[2]) in (1, 2) and draw(st.integers(0, 19)) == 0:
            hi = int_range(spec[1])[1] if spec[1][0] == "int" else 1 << 20
            n = draw(st.sampled_from([x for x in (127, 128, 255, 256, 300) if x <= hi] or [cap]))     # counts at the edges of the count field
        s2 = nested_scope(sc)
        return [V(draw, spec[2], s2) for _ in range(n)]
    if k == "select":
        i = draw(st.integers(0, len(spec[1]) - 1))
        alt = spec[1][i]
        if alt[0] == "const":
            return alt[1]
        return V(draw, alt, top_scope({kk: vv for kk, vv in sc.items()}, "build"))
    if k == "optional":
        if draw(st.booleans()):
            return None
        return V(draw, spec[1], sc)
    if k == "if":
        c = _cond(spec[1], sc, draw)
        return V(draw, spec[2], sc, vp) if c else draw(st.sampled_from([None, None, 0]))
    if k == "ite":
        c = _cond(spec[1], sc, draw)
        return V(draw, spec[2] if c else spec[3], sc, vp)
    if k == "switch":
        try:
            key = X.evaluate(spec[1], sc)
            sub = {kk: s for kk, s in spec[2]}.get(key, spec[3])
        except Exception:
            sub = spec[3]
        return None if sub is None else V(draw, sub, sc, vp)
    if k == "rebuild":
        return draw(st.sampled_from([None, None, 0]))
    if k == "default":
        if draw(st.booleans()):
            return None
        return V(draw, spec[1], sc, vp)
    if k in ("hex", "hexdump", "docs", "bytewise", "bitwise", "byteswapped", "bitsswapped", "nullstrip", "lazybound"):
        if k == "nullstrip":
            return V(draw, spec[1], sc, VP(limit=vp.limit, avoid=vp.avoid, unit=vp.unit, nostrip=spec[2]))
        return V(draw, spec[1], sc, vp)
    if k == "prefixed":
        limit = None
        if spec[1][0] == "int":
            limit = int_range(spec[1])[1] - (fixed_size(spec[1]) if spec[3] else 0)
        return V(draw, spec[2], sc, VP(limit=limit))
    if k == "fixedsized":
        n = ev_len(spec[1], sc)
        if n is None:
            n = draw(st.integers(0, 5))
        return V(draw, spec[2], sc, VP(limit=max(n, 0)))
    if k in ("padded", "aligned"):
        return V(draw, spec[2], sc, vp)
    if k == "nullterm":
        return V(draw, spec[1], sc, VP(limit=vp.limit, avoid=frozenset(spec[2]), unit=len(spec[2])))
    if k == "xor":
        return V(draw, spec[2], sc, VP())
    if k == "rol":
        return V(draw, spec[3], sc, VP(unit=spec[2] if isinstance(spec[2], int) else 1))
    if k == "compressed":
        return V(draw, spec[1], sc, VP())
    raise ValueError("gen_value: unknown kind %r" % k)


def _cond(e, sc, draw):
    try:
        return bool(X.evaluate(e, sc))
    except Exception:
        return draw(st.booleans())


def _float_specials(n):
    eb, mb = ieee.FORMATS[n]
    top = 1 << (eb + mb)
    emax = ((1 << eb) - 1) << mb
    return [0, top, emax, top | emax, emax | 1, emax | (1 << (mb - 1)), 1, top | 1, (1 << mb) - 1, 1 << mb, emax - 1,
            ((1 << (eb - 1)) - 1) << mb]


def _gen_bytes(draw, lo, hi, vp):
    alphabet = [b for b in range(256) if b not in vp.avoid]
    n = draw(st.integers(lo, max(lo, hi)))
    if vp.unit > 1 and lo != hi:
        n -= n % vp.unit
    if vp.avoid:
        data = bytes(draw(st.lists(st.sampled_from(alphabet), min_size=n, max_size=n)))
    else:
        data = draw(st.binary(min_size=n, max_size=n))
    if vp.nostrip and lo != hi:
        # value must survive NullStripped: no trailing pad unit (nor a trailing partial pad unit)
        from pbt.refmodel import strip_units
        data = strip_units(data, vp.nostrip)
    return data


def referenced_constants(members_after, name):
    """(is the member referenced by later members?, constants it is compared with / switch keys)"""
    used = False
    consts = []
    for _, s in members_after:
        for sub in walk(s):
            pass
        from pbt.grammar import exprs_in
        for e, lvl in exprs_in(s):
            if _mentions(e, lvl, name):
                used = True
                consts += _consts_of(e)
        used2, c2 = _switch_keys(s, name, 0)
        used = used or used2
        consts += c2
    return used, consts


def _consts_of(e):
    k = e[0]
    if k == "const":
        return [e[1]]
    if k == "bin":
        return _consts_of(e[2]) + _consts_of(e[3])
    if k in ("un", "fn", "lam"):
        return _consts_of(e[2])
    return []


def _switch_keys(spec, name, lvl):
    used, consts = False, []
    if spec[0] == "switch" and is_expr(spec[1]) and _mentions(spec[1], lvl, name):
        used = True
        consts += [kk for kk, _ in spec[2]]
    inner = lvl + (1 if spec[0] in SCOPED else 0)
    for c in children(spec):
        u, cs = _switch_keys(c, name, inner)
        used, consts = used or u, consts + cs
    return used, consts


def _gen_members(draw, members, sc, vp):
    """draw values for struct-like members in order; returns ({name or ('#',i): value}, scope)"""
    s2 = nested_scope(sc)
    out = {}
    n = len(members)
    for i, (name, sub) in enumerate(members):
        last = i == n - 1
        used, consts = referenced_constants(members[i + 1:], name) if name else (False, [])
        mvp = vp if last else VP(avoid=vp.avoid, unit=vp.unit)
        while sub[0] in ("docs", "lazybound"):
            sub = sub[1]
        if sub[0] == "rebuild":
            v = draw(st.sampled_from([None, None, 0]))
            s2[name] = Free()
        elif used and sub[0] == "int":
            lo, hi = int_range(sub)
            pool = [c for c in consts if isinstance(c, int) and not isinstance(c, bool) and lo <= c <= hi]
            pool += [c + 1 for c in pool if lo <= c + 1 <= hi]
            v = draw(st.sampled_from(sorted(set(pool + [x for x in range(0, 6) if lo <= x <= hi]))))
            s2[name] = v
        elif used and sub[0] == "default" and sub[1][0] == "int":
            v = draw(st.sampled_from([None, None, 0, 1, 2, 3]))
            dv = sub[2]
            if is_expr(dv):
                try:
                    dv = X.evaluate(dv, s2)
                except Exception:
                    dv = Free()
            s2[name] = dv if v is None else v
        elif used and sub[0] == "const" and sub[2] is not None:
            v = draw(st.sampled_from([None, None, sub[1]]))
            s2[name] = sub[1]
        elif used and sub[0] == "computed":
            v = None
            try:
                s2[name] = X.evaluate(sub[1], s2)
            except Exception:
                s2[name] = Free()
        elif used and sub[0] == "varint":
            v = draw(st.integers(0, 5))
            s2[name] = v
        elif used and sub[0] == "enum":
            labels = [l for l, _ in enum_table(sub)]
            v = draw(st.sampled_from(labels + labels + [max(vv for _, vv in enum_table(sub)) + 1]))
            s2[name] = v
        else:
            v = gen_value(draw, sub, s2, mvp)
            if name:
                s2[name] = v
        out[("#", i)] = v
        if name:
            out[name] = v
    return out, s2


def _gen_struct_value(draw, members, sc, vp):
    d, _ = _gen_members(draw, members, sc, vp)
    out = {}
    for i, (name, sub) in enumerate(members):
        if not name:
            continue
        v = d[name]
        if buildnone(sub) and v is None and draw(st.booleans()):
            continue  # key omitted: built from None
        out[name] = v
    return out


@st.composite
def cases(draw, frag=SEQUENTIAL, depth=3, tail=True, with_params=True, rootrefs=False, ntflags=False):
    """(spec, params, value)"""
    spec, params = draw(spec_and_params(frag, depth, tail, with_params, rootrefs, ntflags))
    sc = top_scope(params, "build")
    value = gen_value(draw, spec, sc)
    return spec, params, value


# ---------------------------------------------------------------------------------------------
# comparison of library values with reference values
# ---------------------------------------------------------------------------------------------
def veq(lib, ref):
    """library value vs reference value: structural, type-strict, NaN- and signed-zero-aware"""
    if ref is None:
        return lib is None
    if isinstance(ref, bool):
        return isinstance(lib, bool) and lib == ref
    if isinstance(ref, int):
        return isinstance(lib, int) and not isinstance(lib, bool) and lib == ref
    if isinstance(ref, float):
        if not isinstance(lib, float):
            return False
        if math.isnan(ref):
            return math.isnan(lib)
        return lib == ref and math.copysign(1, lib) == math.copysign(1, ref)
    if isinstance(ref, str):
        return isinstance(lib, str) and str(lib) == ref
    if isinstance(ref, bytes):
        return isinstance(lib, bytes) and bytes(lib) == ref
    if isinstance(ref, dict):
        if not isinstance(lib, dict):
            return False
        lk = [k for k in dict.keys(lib) if not (isinstance(k, str) and k.startswith("_"))]
        rk = [k for k in ref.keys() if not (isinstance(k, str) and k.startswith("_"))]
        if sorted(map(str, lk)) != sorted(map(str, rk)):
            return False
        return all(veq(dict.__getitem__(lib, k), ref[k]) for k in rk)
    if isinstance(ref, (list, tuple)):
        return isinstance(lib, list) and len(lib) == len(ref) and all(veq(a, b) for a, b in zip(lib, ref))
    return lib == ref
