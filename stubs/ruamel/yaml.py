"""Tiny stand-in for ruamel.yaml (not installed, cannot be fetched): export_ksy() only needs
YAML().dump(obj, stream).  JSON is a YAML subset, so the emitted text is still valid YAML; the
checks read it back with json.loads."""
import json


class YAML:
    default_flow_style = False

    def dump(self, obj, stream):
        def default(o):
            return {"$repr": repr(o)}
        stream.write(json.dumps(obj, default=default, sort_keys=False))
